"""Printer-family helpers (C05, C18, C19): configuration space from PrintRT.tla,
driver runs, TLC validation."""
import json
import vlib


def configs(R):
    res = R.tlc("PrintCfg", "INIT Init\nNEXT Next\nINVARIANT Emit\n", workers=1, name="PrintCfg")
    for p in res.prints:
        if p and p[0] == "CONFIGS":
            c = json.loads(p[1])
            if len(c) != 256:
                raise vlib.MachineryError("PrintRT.Configs has %d entries" % len(c))
            return c
    raise vlib.MachineryError("PrintCfg printed no configurations")


def observe(R, cases, cfgs, faults_every=0):
    inp = []
    for i, c in enumerate(cases):
        d = dict(id=c["id"], src=c["src"])
        if c.get("only") is not None:
            d["only"] = c["only"]
        if faults_every and i % faults_every == 0:
            d["faults"] = True
        inp.append(d)
    obs, _ = R.drive("print", inp, header=dict(configs=cfgs), shards=vlib.NCPU, timeout=3000)
    if len(obs) != len(cases):
        raise vlib.MachineryError("print driver returned %d of %d" % (len(obs), len(cases)))
    return obs


def validate(R, which, obs, name):
    cfg = "INIT Init\nNEXT Next\nINVARIANT Chk\nCONSTANT WHICH = \"%s\"\n" % which
    return sorted(s + p[1] - 1 for s, p in R.pvalidate("PrintCheck", obs, 2500, name, cfg=cfg, extra_states=1) if p[0] == "MISMATCH")
