"""C18 -- printing is an idempotent, deterministic normal form; the AST stays untouched.

Same programs and configuration space as C05 (ShellGen x PrintRT.Configs).
The driver records, per program and configuration, whether print(parse(print(t)))
is byte-identical to print(t), whether two prints of one tree are identical,
whether a complete dump of the tree (every field, every Sep, every position)
is unchanged by Fprint, and -- for every k below the output length -- whether
a writer that fails after k bytes makes Fprint return an error.  TLC validates
every record (PrintRT!C18Holds)."""
import json
import vlib, shellgen, printlib
from checks import c05

LEVEL = "model_checking"


def run(R):
    R.rule = ("cases = (program, configuration) pairs as in C05, plus (program, k) writer faults for every k below the output "
              "length under the first and the last configuration for every 4th program; distinct_nontrivial = distinct programs "
              "whose printing edits a separator in place (if/while/until/case with a ;-terminated list) or spans several lines")
    R.assumptions = ["the deep dump (harness/proj/dump.go) shows every field of the tree, including unexported positions",
                     "idempotence is judged on the text printed from the first parse (a fix-point after one round)"]
    cfgs = printlib.configs(R)
    cases = c05.programs(R)
    for i, c in enumerate(cases):
        c["id"] = "p%d" % i
    obs = printlib.observe(R, cases, cfgs, faults_every=4)
    bad = printlib.validate(R, "C18", obs, "c18")
    c05.report(R, obs, bad, "printer normal form / purity / writer fault")
    R.evaluations = sum(o["ncfg"] * 3 + o["wf_total"] for o in obs)
    R.traces = len(obs)
    R.nontrivial = set(o["src"] for o in obs if any(x in o["sk"] for x in ("if[", "while[", "until[", "case[")) or "\n" in o["src"].strip())
    for o in obs[len(obs) // 3: len(obs) // 3 + 3]:
        R.sample(dict(src=o["src"], printed_under_one_config=o["sample"], configs=o["ncfg"], writer_fault_runs=o["wf_total"]))
    R.notes.update(programs=len(obs), configurations=256, writer_fault_runs=sum(o["wf_total"] for o in obs))


def replay(R, doc):
    cfgs = printlib.configs(R)
    obs = printlib.observe(R, [doc["replay"]["case"]], cfgs, faults_every=1)
    bad = printlib.validate(R, "C18", obs, "replay")
    c05.report(R, obs, bad, "replay")
    R.evaluations = 256
