"""C13 -- parameter expansion follows the POSIX operator table for every parameter state.

specs/Param.tla transcribes the table (state x operator -> value / word /
assignment / error / null) on top of Split.tla (field splitting of the result)
and Pattern.tla (the % # operators); ParamGen enumerates the full product
{13 operators + plain + length} x {unset, null, non-null} x {variable,
positional, $@, $*, special} x {unquoted, double-quoted, quoted word} x
nounset x IFS x positional-parameter sets; the driver expands every cell with
the real ExecEnv.Expand and reports fields, error class, whether the unused
word was expanded (side-effect word ${y:=s}) and the value of the variable
afterwards; ParamCheck validates every cell."""
import json
import vlib

LEVEL = "model_checking"


def run(R):
    R.rule = ("cases = cells of the product {plain, length, :- - := = :? ? :+ + % %% # ##} x parameter {variable unset/null/x/x y/multi-byte, "
              "$1, $@, $*, $#, $!} x positional sets {none, one empty, one, three with an empty one} x word {w, 'u v', side-effect "
              "word, pattern} x quoting {none, double quotes, quoted word} x IFS {unset, ',', empty} x nounset; exhaustive; "
              "distinct_nontrivial = distinct cells whose operator uses the word, assigns, fails or removes a pattern")
    R.assumptions = ["null-ness of $@ / $* follows the library (no parameters, or exactly one empty parameter)", "${#*} is unspecified",
                     "field splitting of results is Split.tla (checked by C14), pattern removal is Pattern.tla (checked by C12)"]
    res = R.tlc("ParamGen", "INIT Init\nNEXT Next\nINVARIANT Emit\n", name="ParamGen", timeout=3000)
    cases = [json.loads(p[1]) for p in res.prints if p and p[0] == "CASE"]
    if len(cases) < 1000:
        raise vlib.MachineryError("ParamGen produced %d cases" % len(cases))
    obs, _ = R.drive("param", cases, shards=vlib.NCPU)
    if len(obs) != len(cases):
        raise vlib.MachineryError("driver returned %d of %d" % (len(obs), len(cases)))
    path = R.path("obs", "param.ndjson")
    vlib.write_ndjson(path, obs)
    res = R.tlc("ParamCheck", "INIT Init\nNEXT Next\nINVARIANT Chk\n", env={"VERIF_OBS": path}, workers=1, name="ParamCheck", timeout=3000)
    if res.distinct != len(obs):
        raise vlib.MachineryError("ParamCheck visited %d of %d" % (res.distinct, len(obs)))
    for p in res.prints:
        if p and p[0] == "MISMATCH":
            o = obs[p[1] - 1]
            ex = dict(cell=o["c"], observed=o["obs"], expected=json.loads(p[2]))
            c = o["c"]
            R.violation("parameter expansion differs from the table: %s" % json.dumps(ex, ensure_ascii=False)[:1500],
                        dict(kind="param", case=c), coords=dict(p=c["p"], op=c["op"], vst=c["vst"], nargs=len(c["args"]), q=c["q"]))
    R.exhaustive = True
    R.evaluations = len(obs)
    R.traces = len(obs)
    R.nontrivial = set(json.dumps(o["c"], sort_keys=True) for o in obs if o["c"]["op"] not in ("", "len"))
    for o in obs[len(obs) // 2: len(obs) // 2 + 3]:
        R.sample(dict(cell=o["c"], observed=o["obs"]))


def replay(R, doc):
    c = doc["replay"]["case"]
    obs, _ = R.drive("param", [c])
    path = R.path("obs", "param.ndjson")
    vlib.write_ndjson(path, obs)
    res = R.tlc("ParamCheck", "INIT Init\nNEXT Next\nINVARIANT Chk\n", env={"VERIF_OBS": path}, workers=1, name="ParamCheck")
    for p in res.prints:
        if p and p[0] == "MISMATCH":
            R.violation("replay: %s" % json.dumps(obs[0])[:800], doc["replay"], coords=dict(p=c["p"], op=c["op"], vst=c["vst"], nargs=len(c["args"]), q=c["q"]))
    R.evaluations = 1
