"""C04 -- every recorded position designates the token it documents.

The driver parses each accepted source and walks the AST, emitting a node claim
per node (Pos, End, parent, sibling group) and a field claim per documented
position field together with the source text found at that line:column (in
characters).  PosWalk.tla holds the contract: the spelling table of the
fields, positions inside the source, Pos <= End, never a zero End, children
inside parents, siblings in increasing order.  PosCheck validates every walk.
Sources: ShellGen programs (single- and multi-line, here-documents, nested
substitutions), their layout variants, accepted token strings of ShellRec and
hand-written multi-byte sources."""
import json
import vlib, shellgen, chargen
from checks import c09, c03

LEVEL = "model_checking"

MULTIBYTE = [
    "é=1 x\n", "é=é ü=ö echo é\n", "echo 'é' \"ü$é\" ${é:-ü} $(é) `ü`\n", "for é in ü ö; do echo $é; done\n",
    "é() { ü; }\n", "cat <<É\n é $ü\nÉ\n", "echo é >ü 2>ö\n", "case é in ü) ö;; esac\n", "echo $((é + 1))\n",
    "a # é comment\n", "x=é\"ü\"'ö' y\n", "if é; then ü; elif ö; then é; else ü; fi\n", "\"\"\n", "a \"\" ''\n", "a \\\n",
    "echo foo\\", "FOO=bar\\", "echo foo >out\\", "echo $\n", "{ echo a$\n}\n", "echo \"a $\nb\"\n", "cat <<E\na$\nE\n",
    ">x\n", "2>&1 >x <y\n", "case x in a) esac\n", "case x in (a) ;; b) c ;; esac\n", "x= y\n", "echo ${x#} ${#x} ${x:=} $1 $@\n",
    "echo a\\\nb c\n", "a <<E <<-F\nx\nE\n\ty\n\tF\n", "{ (a) }\n", "f() (a)\n", "! a | b && c || d &\n", "(( 1 + 2 )) >x\n",
]


def validate(R, obs, name):
    bad = [(s + p[1] - 1, p[2]) for s, p in R.pvalidate("PosCheck", obs, 2000, name) if p[0] == "MISMATCH"]
    return sorted(bad)


def check(R, srcs, name):
    obs, _ = R.drive("poswalk", [dict(id="%s%d" % (name, i), src=s) for i, s in enumerate(srcs)], shards=vlib.NCPU)
    obs = [o for o in obs if o["err"]["class"] == "none"]
    bad = validate(R, obs, name)
    for k, claims in bad:
        o = obs[k]
        for kind, idx, why in claims:
            ex = dict(src=o["src"], panic=o["panic"], why=why)
            if kind == "field":
                ex["field_claim"] = o["fields"][idx - 1]
            else:
                n = o["nodes"][idx - 1]
                ex["node_claim"] = n
                if n["parent"]:
                    ex["parent"] = o["nodes"][n["parent"] - 1]
            R.violation("position contract broken: %s" % json.dumps(ex, ensure_ascii=False)[:1500],
                        dict(kind="poswalk", case=dict(src=o["src"])), coords=dict(why=why))
    return obs


def run(R):
    R.rule = ("cases = accepted sources with the complete walk of their AST (one node claim per node, one field claim per recorded "
              "position): ShellGen programs and their layout variants, the word focus, accepted ShellRec token strings, hand-written multi-byte "
              "sources; distinct_nontrivial = distinct sources spanning several lines or holding a multi-byte character or an expansion")
    R.assumptions = ["no aliases (positions inside alias values are not source positions)",
                     "documented exclusions: Comment.End; sibling End <= next Pos is not demanded for nodes holding a here-document "
                     "(their text is not contiguous)", "columns count characters; the driver indexes lines by runes"]
    cases = c09.gen(R, 2, 10 if R.tier == "quick" else 300)
    srcs = []
    for n, c in enumerate(cases):
        srcs.append(c["src"])
        # all layout variants (quick tier: of every program without here-documents and of every 4th with)
        if R.tier != "quick" or "<<" not in c["src"] or n % 4 == 0:
            for v in c["variants"]:
                srcs.append(v["src"])
    # the word focus: one argument word with up to 2 (3) non-minimal productions inside it
    srcs += [c["src"] for c in shellgen.focus(R, "wprog", 2 if R.tier == "quick" else 3, 4)]
    rec = c03.gen(R, 3 if R.tier == "quick" else 4, False, name="recbfs")
    srcs += [c["src"] for c in rec if c["cls"] == "accept"]
    srcs += MULTIBYTE
    # character-level: every string up to N characters over the shell's special characters (accepted ones are walked)
    srcs += chargen.strings(R, chargen.SHELL_ALPHA, 4 if R.tier == "quick" else 5)
    srcs = list(dict.fromkeys(srcs))
    obs = check(R, srcs, "w")
    R.evaluations = sum(len(o["nodes"]) + len(o["fields"]) for o in obs)
    R.traces = len(obs)
    R.nontrivial = set(o["src"] for o in obs if "\n" in o["src"].strip() or "$" in o["src"] or any(ord(ch) > 127 for ch in o["src"]))
    for o in obs[len(obs) // 2: len(obs) // 2 + 2]:
        R.sample(dict(src=o["src"], node_claims=len(o["nodes"]), field_claims=[(f["field"], f["pos"], "".join(f["text"])) for f in o["fields"][:6]]))
    R.notes.update(sources=len(obs))


def replay(R, doc):
    check(R, [doc["replay"]["case"]["src"]], "replay")
    R.evaluations = 1
