"""C06 -- results are schedule-independent; nothing races or keeps running after return.

(1) Model: specs/Proto.tla is the hand-off protocol, one action per
synchronisation point of the code; ProtoModel.tla explores ALL interleavings
for ALL abstract scripts up to a bound and checks result determinism (Determ),
quiescence at return, stability after return, no select with two ready
branches, here-document pops never waiting, read errors kept, no stuck state.
Weakened variants of the protocol (no lock step, no join, no cancel priority)
must violate the corresponding property (vacuity guards; they are the
repaired defects).
(2) Code: the gated scheduler of the harness parks every goroutine at the
verif hooks and forces schedules (both extremes, decision bit-vectors:
exhaustive for short inputs, seeded samples otherwise); every recorded trace
is validated against Proto.tla (ProtoTrace: every event an enabled action,
every invariant in every state); SchedCheck.tla checks identical results over
all schedules of an input and quiescence at return.
(3) Free running under the race detector with GOMAXPROCS 1/2/16 and jitter."""
import json, os, random, subprocess
import vlib

LEVEL = "model_checking"

PARSE_INPUTS = [
    "a\n", "a | b\n", "if a; then b; fi\n", "x=1 a >o 2>&1 &\n",
    "a | | b\n", "a )\n", "'unterminated", "a \"x $(", "${x",
    "a | | $(\nfoo", "a ) 'x", "a; ) b `", "if a; then b; fi )\n$(",
    "cat <<E\nx\nE\n", "cat <<E <<F | b\n1\nE\n2\nF\n", "a <<E &&\nx\nE\nb\n", "cat <<E", "cat <<'E' | | b\nx\nE\n",
    "echo $(a `b`) c\n", "a $(cat <<E\nx\nE\n) b\n", "echo $(a | | b) c\n", "echo $(a 'x) c", "echo `a $(b ) ) ` c\n",
    "f() echo 'xxxxxxxxxxxxxxxxxxxxxxxxxxxxxxxxxxxxxxxxxxxxxxxxxxxx", "for x in a b; do c; done\n", "case x in a) b;; esac\n",
    "a # c\nb\n", "{ a; } ) 'x",
]
# (source, first failing rune): a read fault hitting the look-ahead of an operator / inside a nested lexer
FAULT_INPUTS = [("a | |", 5), (";", 1), ("( ;", 3), ("case x in a) ;; esac", 14), ("echo $(a", 8), ("a && b", 3), ("cat <<E\nx\nE\n", 9),
                ("echo `a | ", 10)]
EVAL_INPUTS = [
    "08 @", "09 09 @", "x = 09 @", "(08) + @",
    "1 + 2 * 3", "x = y = 3", "08 + @", "08 + (y = 1)", "(0) && (08)", "x = 09 09", "09 09", "09 + 1", "y = x++ + 08",
    "1/0 + (x=1)", "(x=1) + 1/0", "++1", "x = 1 $", "1 +", "(1", "x = 1 ? 2 : 3", "1 << -1", "x += y++ + 09",
]


def schedules(rnd, n_random):
    s = [dict(policy="lexer"), dict(policy="parser"), dict(policy="bits", bits="0" * 64), dict(policy="bits", bits="1" * 64),
         dict(policy="bits", bits="01" * 32), dict(policy="bits", bits="10" * 32), dict(policy="bits", bits="0011" * 16)]
    for _ in range(n_random):
        s.append(dict(policy="bits", bits="".join(rnd.choice("01") for _ in range(96))))
    return s


def model(R):
    kinds_sh = '{"ok", "le", "la", "pe", "hd", "nl", "flt", "nok", "npe", "nle"}'
    kinds_ar = '{"ok", "ae", "le", "la", "pe"}'
    base = ("INIT MInit\nNEXT MNext\nINVARIANTS TypeOK Quiescent NoSelectRace PopNeverWaits HdBalance Determ FaultSurvives NoStuck\n"
            "PROPERTIES Stable ReadErrorKept\nCONSTANTS MaxL = 3\n Lockstep = %s\n CancelPriority = %s\n JoinOnReturn = %s\n MaxLen = %d\n Kinds = %s\n")
    ml = 3 if R.tier == "quick" else 4
    res = R.tlc("ProtoModel", base % ("TRUE", "TRUE", "TRUE", ml, kinds_sh), name="ProtoModel-shell", timeout=3000, deadlock=False)
    if res.violated:
        raise vlib.MachineryError("Proto.tla (as-is protocol, shell parser) violates %s -- model-level counterexample, "
                                  "not reproduced on the code: inspect the spec" % res.violated)
    res2 = R.tlc("ProtoModel", base % ("TRUE", "TRUE", "TRUE", ml + 1, kinds_ar), name="ProtoModel-arith", timeout=3000, deadlock=False)
    if res2.violated:
        raise vlib.MachineryError("Proto.tla (as-is protocol, arithmetic) violates %s" % res2.violated)
    # liveness under fairness (no state constraint)
    live = R.tlc("ProtoModel", "SPECIFICATION MSpec\nPROPERTY Termination\nCONSTANTS MaxL = 2\n Lockstep = TRUE\n CancelPriority = TRUE\n"
                 " JoinOnReturn = TRUE\n MaxLen = 2\n Kinds = %s\n" % kinds_sh, name="ProtoModel-live", timeout=3000, deadlock=False)
    if live.violated:
        raise vlib.MachineryError("Proto.tla: Termination violated in the model")
    # vacuity guards: the weakened protocols are the repaired defects and must violate the properties
    guards = []
    for ls, cp, jr, kinds, inv in (("FALSE", "TRUE", "TRUE", '{"ok", "le", "pe"}', "Determ"),
                                   ("TRUE", "TRUE", "FALSE", '{"ok", "pe"}', "Quiescent"),
                                   ("TRUE", "FALSE", "TRUE", '{"ok", "ae", "le"}', "NoSelectRace"),
                                   ("TRUE", "FALSE", "TRUE", '{"ok", "la", "pe"}', "Determ"),
                                   ("FALSE", "TRUE", "TRUE", '{"ok", "hd", "nl"}', "PopNeverWaits")):
        cfg = ("INIT MInit\nNEXT MNext\nINVARIANT %s\nCONSTANTS MaxL = 2\n Lockstep = %s\n CancelPriority = %s\n JoinOnReturn = %s\n"
               " MaxLen = 3\n Kinds = %s\n" % (inv, ls, cp, jr, kinds))
        g = R.tlc("ProtoModel", cfg, name="ProtoModel-guard-" + inv, timeout=3000, deadlock=False, count=False)
        guards.append(dict(lockstep=ls, cancel_priority=cp, join=jr, violates=inv, violated=inv in g.violated))
        if inv not in g.violated:
            raise vlib.MachineryError("vacuity guard: weakened protocol does not violate %s" % inv)
    R.notes["model"] = dict(shell=dict(states=res.distinct, generated=res.generated, max_script_len=ml),
                            arith=dict(states=res2.distinct, generated=res2.generated, max_script_len=ml + 1),
                            liveness_states=live.distinct, weakened_variants=guards)


def trace_validate(R, runs, name):
    """ProtoTrace: returns (accepted_all, first rejected run index or None, event index)"""
    recs = [dict(id=r["id"], ev=r["events"][:r["nret"]]) for r in runs]
    path = R.path("obs", name + ".ndjson")
    vlib.write_ndjson(path, recs)
    cfg = ("SPECIFICATION TSpec\nINVARIANTS NotAllAccepted TypeOK Quiescent NoSelectRace PopNeverWaits HdBalance EndOK\n"
           "CONSTRAINT HighWater\nPOSTCONDITION Report\nCONSTANTS MaxL = 6\n Lockstep = TRUE\n CancelPriority = TRUE\n JoinOnReturn = TRUE\n")
    res = R.tlc("ProtoTrace", cfg, env={"VERIF_OBS": path}, workers=1, name=name + "-trace", timeout=3000, deadlock=False)
    if "NotAllAccepted" in res.violated and len(res.violated) == 1:
        return True, None, None, None
    other = [v for v in res.violated if v != "NotAllAccepted"]
    hw = [p for p in res.prints if p and p[0] == "HWM"]
    if hw:
        t, i = hw[-1][1] // 1000000, hw[-1][1] % 1000000
    else:
        t, i = 0, 0
    return False, t - 1, i, other


def run(R):
    R.rule = ("cases = (input, schedule): the input classes of the property (valid; one error; a parser error followed by a later "
              "lexer error; here-documents; nested command substitutions; arithmetic with several errors and assignments) x forced "
              "schedules (lexer-eager, parser-eager, decision bit-vectors at every point where two goroutines are ready: fixed "
              "patterns + seeded random vectors) + free runs under the race detector with GOMAXPROCS 1/2/16; distinct_nontrivial = "
              "distinct (input, schedule) pairs whose event order differs from the lexer-eager run of that input")
    R.assumptions = ["the gated scheduler parks goroutines at the verif hooks only; between two hooks a goroutine runs undisturbed",
                     "a grant is followed by a 30 us quiescence wait so that a decision sees every ready goroutine; timing can still "
                     "vary the set of schedules explored, never the soundness of an observation (every run is a real execution)",
                     "ProtoTrace acceptance shows that each run is a behaviour of Proto.tla; a rejected trace with all property "
                     "predicates holding is reported as drift in the evidence, not as a violation"]
    model(R)
    rnd = random.Random(R.seed)
    nrand = 10 if R.tier == "quick" else 150
    cases = []
    for kind, inputs in (("parse", PARSE_INPUTS), ("eval", EVAL_INPUTS)):
        for i, src in enumerate(inputs):
            for j, s in enumerate(schedules(rnd, nrand)):
                cases.append(dict(id="%s%d.%d" % (kind[0], i, j), kind=kind, src=src, seed=R.seed * 1000 + j, **s))
    for i, (src, k) in enumerate(FAULT_INPUTS):
        for j, s in enumerate(schedules(rnd, nrand)):
            cases.append(dict(id="f%d.%d" % (i, j), kind="parse", src=src, fault=k, seed=R.seed * 1000 + j, **s))
    obs, _ = R.drive("sched", cases, shards=8, timeout=3000)
    if len(obs) != len(cases):
        raise vlib.MachineryError("driver returned %d of %d" % (len(obs), len(cases)))
    byinput = {}
    fault_of = {c["id"]: c.get("fault") for c in cases}
    for o in obs:
        byinput.setdefault((o["kind"], o["src"], fault_of.get(o["id"])), []).append(o)
    # free runs under the race detector
    race_obs, races = race_runs(R, 6 if R.tier == "quick" else 100)
    for o in race_obs:
        byinput.setdefault((o["kind"], o["src"], None), []).append(o)
    recs = []
    for (kind, src, _flt), runs in byinput.items():
        recs.append(dict(kind=kind, src=src, runs=[{k: r[k] for k in ("id", "policy", "bits", "err", "sk", "comments", "consumed", "value",
                                                                       "store", "hang", "late", "running", "lateread", "panic")} for r in runs]))
    path = R.path("obs", "sched.ndjson")
    vlib.write_ndjson(path, recs)
    res = R.tlc("SchedCheck", "INIT Init\nNEXT Next\nINVARIANT Chk\n", env={"VERIF_OBS": path}, workers=1, name="SchedCheck", timeout=3000)
    if res.distinct != len(recs):
        raise vlib.MachineryError("SchedCheck visited %d of %d" % (res.distinct, len(recs)))
    nbad = 0
    for p in res.prints:
        if p and p[0] == "MISMATCH":
            rec = recs[p[1] - 1]
            r0, rb = rec["runs"][0], rec["runs"][p[2] - 1]
            ex = dict(kind=rec["kind"], src=rec["src"], schedule_a=dict(policy=r0["policy"], bits=r0["bits"][:24]),
                      result_a=dict(err=r0["err"], consumed=r0["consumed"], value=r0["value"], store=r0["store"]),
                      schedule_b=dict(policy=rb["policy"], bits=rb["bits"][:24]),
                      result_b=dict(err=rb["err"], consumed=rb["consumed"], value=rb["value"], store=rb["store"], hang=rb["hang"],
                                    late=rb["late"], running=rb["running"], lateread=rb["lateread"], panic=rb["panic"]))
            nbad += 1
            R.violation("schedule dependence / not quiescent at return: %s" % json.dumps(ex, ensure_ascii=False)[:1600],
                        dict(kind="sched", case=dict(kind=rec["kind"], src=rec["src"], policy=rb["policy"], bits=rb["bits"])),
                        coords=dict(src=rec["src"]))
    for r in races:
        nbad += 1
        R.violation("data race reported by the race detector: %s" % r[:1500], dict(kind="race", report=r), coords=dict(race=True))
    # trace validation of every gated run that returned
    gated = [o for o in obs if not o["hang"] and fault_of.get(o["id"]) is None]   # read faults have no hook event
    drift = None
    ok_all = True
    for s in range(0, len(gated), 400):
        part = gated[s:s + 400]
        ok, t, i, other = trace_validate(R, part, "tv%d" % s)
        if not ok:
            ok_all = False
            bad = part[t] if t is not None and 0 <= t < len(part) else None
            ev = bad["events"][max(0, i - 4): i + 1] if bad else None
            drift = dict(run=bad and bad["id"], src=bad and bad["src"], event_index=i, last_events=ev, invariants_violated=other)
            if other:
                # an invariant of Proto.tla failed on a state reached by a real trace
                R.violation("recorded trace violates an invariant of Proto.tla: %s" % json.dumps(drift, ensure_ascii=False)[:1500],
                            dict(kind="sched", case=dict(kind=bad["kind"], src=bad["src"], policy=bad["policy"], bits=bad.get("bits", ""))),
                            coords=dict(src=bad["src"]))
            break
    R.traces = len(gated)
    R.evaluations = len(obs) + len(race_obs)
    base = {}
    for o in obs:
        if o["policy"] == "lexer":
            base[(o["kind"], o["src"])] = [(e["t"], e["pt"]) for e in o["events"]]
    R.nontrivial = set(o["id"] for o in obs if [(e["t"], e["pt"]) for e in o["events"]] != base.get((o["kind"], o["src"])))
    R.notes.update(inputs=len(byinput), gated_runs=len(obs), race_runs=len(race_obs), races=len(races),
                   traces_accepted_by_ProtoTrace=ok_all, drift=drift, drift_flag=(not ok_all and nbad == 0),
                   decision_points_max=max(o["ndec"] for o in obs), events_validated=sum(o["nret"] for o in gated))
    for o in obs[5:7]:
        R.sample(dict(input=o["src"], schedule=dict(policy=o["policy"], bits=o["bits"][:16]),
                      events=" ".join("%s:%s" % (e["t"], e["pt"]) for e in o["events"][:40]), result=o["err"]))


def race_runs(R, reps):
    drv = R.build_driver(race=True)
    cases = []
    for kind, inputs in (("parse", PARSE_INPUTS), ("eval", EVAL_INPUTS)):
        for i, src in enumerate(inputs):
            for j in range(reps):
                cases.append(dict(id="r%s%d.%d" % (kind[0], i, j), kind=kind, src=src, policy="race", seed=j))
    out, races = [], []
    for procs in ("1", "2", "16"):
        env = dict(os.environ, GOMAXPROCS=procs, GORACE="halt_on_error=0")
        p = subprocess.run([drv, "sched"], input="\n".join(json.dumps(c) for c in cases).encode(), stdout=subprocess.PIPE,
                           stderr=subprocess.PIPE, env=env, timeout=3000)
        err = p.stderr.decode("utf-8", "replace")
        if "DATA RACE" in err:
            for blk in err.split("==================")[1:]:
                if "DATA RACE" in blk and "/repo/" in blk:
                    races.append(blk.strip())
                    break
        elif p.returncode != 0:
            raise vlib.MachineryError("race driver failed rc=%d: %s" % (p.returncode, err[-2000:]))
        for line in p.stdout.decode().splitlines():
            if line.strip():
                o = json.loads(line)
                o["id"] += "@" + procs
                out.append(o)
    return out, races[:3]


def replay(R, doc):
    c = doc["replay"]["case"]
    rnd = random.Random(1)
    cases = [dict(id="x%d" % j, kind=c["kind"], src=c["src"], seed=j, **s) for j, s in enumerate(schedules(rnd, 20))]
    cases.append(dict(id="given", kind=c["kind"], src=c["src"], policy=c.get("policy", "bits"), bits=c.get("bits", ""), seed=0))
    obs, _ = R.drive("sched", cases)
    recs = [dict(kind=c["kind"], src=c["src"], runs=[{k: r[k] for k in ("id", "policy", "bits", "err", "sk", "comments", "consumed", "value",
                                                                         "store", "hang", "late", "running", "lateread", "panic")} for r in obs])]
    path = R.path("obs", "replay.ndjson")
    vlib.write_ndjson(path, recs)
    res = R.tlc("SchedCheck", "INIT Init\nNEXT Next\nINVARIANT Chk\n", env={"VERIF_OBS": path}, workers=1, name="SchedCheck")
    for p in res.prints:
        if p and p[0] == "MISMATCH":
            R.violation("replay: schedule dependence on %r" % c["src"], doc["replay"], coords=dict(src=c["src"]))
    R.evaluations = len(obs)
