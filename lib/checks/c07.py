"""C07 -- one call consumes exactly one complete command from the stream.

Commands come from ShellGen (base programs and their comment variants); a
stream is a seeded random sequence of command / blank-line / comment-line
segments.  The driver makes successive ParseCommands calls on one rune
scanner and records the position after every call; it also parses every
command text alone.  Stream.tla defines the unique run of a stream (which
segments each call consumes); StreamCheck validates every recorded call
against it (position = end of the command's text, result = the alone parse)."""
import json, random
import vlib, shellgen
from checks import c09

LEVEL = "model_checking"


def streams(R, nstreams):
    rnd = random.Random(R.seed)
    cases = c09.gen(R, 2, 20 if R.tier == "quick" else 300)
    pool = []
    for c in cases:
        pool.append(c["src"])
        for v in c["variants"]:
            if v["kind"] in ("comment", "comment-col1", "continuation", "blankline", "semi2nl"):
                pool.append(v["src"])
    out = []
    # systematically: every command that carries a comment, a continuation or a here-document, followed by one more command
    # (what such a command leaves behind must be exactly the next command), and preceded by one
    special = [t for t in pool if "#" in t or "\\\n" in t or "<<" in t]
    special = rnd.sample(special, min(len(special), 1500 if R.tier == "quick" else len(special)))
    for j, t in enumerate(special):
        segs = [dict(kind="cmd", text=t), dict(kind="cmd", text="zz y\n")]
        if j % 2:
            segs.insert(0, dict(kind="cmd", text="a0\n"))
        out.append(dict(id="p%d" % j, segs=segs, source="scanner" if j % 2 == 0 else "sreader"))
    for i in range(nstreams):
        segs = []
        for _ in range(rnd.randint(2, 6)):
            r = rnd.random()
            if r < 0.12:
                segs.append(dict(kind="blank", text="\n"))
            elif r < 0.2:
                segs.append(dict(kind="comment", text="# note %d\n" % i))
            else:
                segs.append(dict(kind="cmd", text=rnd.choice(pool)))
        # last command without its final newline (only when nothing after the newline belongs to it)
        if segs[-1]["kind"] == "cmd" and rnd.random() < 0.3 and "<<" not in segs[-1]["text"] and segs[-1]["text"].endswith("\n") \
                and "#" not in segs[-1]["text"]:
            segs[-1] = dict(kind="cmd", text=segs[-1]["text"][:-1])
        out.append(dict(id="s%d" % i, segs=segs, source="scanner" if i % 2 == 0 else "sreader"))
    return out


def validate(R, obs, name):
    path = R.path("obs", name + ".ndjson")
    vlib.write_ndjson(path, obs)
    res = R.tlc("StreamCheck", "INIT Init\nNEXT Next\nINVARIANT Chk\n", env={"VERIF_OBS": path}, name=name + "-check",
                workers=1, timeout=3000)
    if res.distinct != len(obs):
        raise vlib.MachineryError("StreamCheck visited %d of %d" % (res.distinct, len(obs)))
    return sorted(p[1] - 1 for p in res.prints if p and p[0] == "MISMATCH")


def report(R, cases, obs, bad):
    byid = {c["id"]: c for c in cases}
    for k in bad:
        o = obs[k]
        c = byid[o["id"]]
        ex = dict(stream="".join(s["text"] for s in c["segs"]), source=o["source"],
                  segments=[(s["kind"], s["len"]) for s in o["segs"]],
                  positions_after_calls=[x["pos"] for x in o["calls"]], errs=[x["err"] for x in o["calls"] if x["err"]["class"] != "none"],
                  panic=o["panic"])
        R.violation("stream consumption differs from Stream.tla: %s" % json.dumps(ex, ensure_ascii=False)[:1500],
                    dict(kind="stream", case=c), coords=dict(stream=ex["stream"]))


def run(R):
    R.rule = ("cases = streams of 2-6 segments (generated complete commands incl. here-documents, multi-line compounds, trailing "
              "comments, continuations; blank lines; comment lines; last command with or without final newline) read by successive "
              "calls from a custom RuneScanner and a strings.Reader; every call boundary is checked; distinct_nontrivial = "
              "distinct streams holding at least two commands")
    R.assumptions = ["a leading comment line is skipped together with following blank lines (pinned by the repository's tests)",
                     "the alone-parse of each command text is the oracle for the call's result"]
    cases = streams(R, 2500 if R.tier == "quick" else 40000)
    obs, _ = R.drive("stream", cases, shards=vlib.NCPU)
    if len(obs) != len(cases):
        raise vlib.MachineryError("driver returned %d of %d" % (len(obs), len(cases)))
    bad = validate(R, obs, "c07")
    report(R, cases, obs, bad)
    R.evaluations = sum(len(o["calls"]) for o in obs)
    R.traces = len(obs)
    R.nontrivial = set(o["id"] for o in obs if sum(1 for s in o["segs"] if s["kind"] == "cmd") >= 2)
    for c in cases[:3]:
        R.sample(dict(stream="".join(s["text"] for s in c["segs"]), kinds=[s["kind"] for s in c["segs"]], source=c["source"]))


def replay(R, doc):
    c = doc["replay"]["case"]
    obs, _ = R.drive("stream", [c])
    bad = validate(R, obs, "replay")
    report(R, [c], obs, bad)
    R.evaluations = 1
