"""C16 -- pathname expansion returns exactly the existing matching paths, in sorted order.

specs/Glob.tla is the reference (component-wise matching with Pattern.tla's
matcher, the hidden-file rule, directories only before a slash, literal
components by existence, escapes).  GlobGen enumerates every tree over five
top-level names (plain, two characters, dot file, a name with a pattern
character, a name ending in a backslash) with seven shapes each (three for the last) (symbolic link to a directory, absent, file, empty directory, directory with
a file, directory with a dot file, dangling symlink) and every pattern of one
or two components from a pool of fifteen components, with and without trailing
slash, and computes the expected set.  The driver builds each tree in a
scratch directory and runs the real pattern.Glob; GlobCheck validates set
equality (modulo the optional . and .. members), existence of every result,
absence of duplicates, ascending byte order and the trailing-slash rule."""
import json
import vlib

LEVEL = "model_checking"


def run(R):
    R.rule = ("cases = (tree, pattern): 7^4 x 3 = 7203 trees x 700 patterns (15 components: literal, *, ?, a*, .*, [ab]*, escaped, a?, "
              "escaped star, *b, ??, escaped backslash, escaped letter + *, escaped period + *, trailing backslash; one or two components; with / without trailing slash; absolute and repeated-slash forms of all one-component and 36 two-component patterns); exhaustive; distinct_nontrivial = "
              "distinct (tree, pattern) pairs with a non-empty expected result")
    R.assumptions = ["patterns are evaluated in a scratch directory; absolute patterns are prefixed with its path (ROOT in the spec)",
                     "every relative single-slash pattern is also written as a word (escapes as backslash quotations) and expanded with ExecEnv.Expand: the matches in order, or the word itself when nothing matches",
                     "a result keeps the separators of the pattern as written (a//b gives a//b); leading repeated slashes are not generated",
                     "'.' and '..' are optional members for components that begin with a literal period",
                     "a component followed by a slash selects directories, following symbolic links (a dangling link is not a directory)"]
    shapes = ["absent", "file", "dir", "dir+a", "dir+.c", "link", "ldir+a"]
    import itertools
    import random
    allidx = sorted(sum(shapes.index(sh) * 7 ** i for i, sh in enumerate(t))
                    for t in itertools.product(shapes, shapes, shapes, shapes, ["absent", "file", "dir+a"]))
    sel = allidx if R.tier != "quick" else sorted(random.Random(R.seed).sample(allidx, 400))
    res = R.tlc("GlobGen", "INIT Init\nNEXT Next\nINVARIANT Emit\nCONSTANT Sel <- MCSel\n", defs="MCSel == {%s}\n" % ", ".join(map(str, sel)),
                name="GlobGen", timeout=6000)
    cases = [json.loads(p[1]) for p in res.prints if p and p[0] == "CASE"]
    if sorted(c["index"] for c in cases) != sel:
        raise vlib.MachineryError("GlobGen produced %d of %d trees" % (len(cases), len(sel)))
    obs, _ = R.drive("glob", cases, shards=vlib.NCPU, timeout=3000)
    if len(obs) != len(cases):
        raise vlib.MachineryError("driver returned %d of %d" % (len(obs), len(cases)))
    bad = []
    shard = 150
    for s in range(0, len(obs), shard):
        part = obs[s:s + shard]
        path = R.path("obs", "glob-%d.ndjson" % s)
        vlib.write_ndjson(path, part)
        r2 = R.tlc("GlobCheck", "INIT Init\nNEXT Next\nINVARIANT Chk\n", env={"VERIF_OBS": path}, workers=1, name="GlobCheck%d" % s, timeout=3000)
        if r2.distinct != len(part):
            raise vlib.MachineryError("GlobCheck visited %d of %d" % (r2.distinct, len(part)))
        bad += [(s + p[1] - 1, p[2] - 1) for p in r2.prints if p and p[0] == "MISMATCH"]
    for k, i in bad:
        c = obs[k]
        p = c["pats"][i]
        ex = dict(tree=[("/".join("".join(n) for n in e["path"]), e["kind"]) for e in c["entries"]], pattern=p["obs"]["text"],
                  expected=["/".join("".join(n) for n in r) for r in p["exp"]],
                  observed=["/".join("".join(n) for n in r) for r in p["obs"]["res"]],
                  flags={k2: p["obs"][k2] for k2 in ("err", "sorted", "nodup", "lstat", "slashok", "panic", "dots", "xerr", "xsorted", "xdots")},
                  as_word=dict(expected=["".join(x) for x in p.get("expw", [])], observed=["".join(x) for x in p["obs"].get("xw", [])]))
        R.violation("Glob differs from Glob.tla: %s" % json.dumps(ex, ensure_ascii=False)[:1500],
                    dict(kind="glob", case=dict(tree=c["tree"], entries=c["entries"], pats=[{k2: p[k2] for k2 in ("comps", "slash", "abs", "rep", "exp", "expstr", "exp2", "expstr2", "wtext", "expw", "expw2")}])),
                    coords=dict(pattern=p["obs"]["text"]))
    R.exhaustive = R.tier != "quick"
    R.evaluations = sum(len(c["pats"]) for c in obs)
    R.traces = len(obs)
    R.nontrivial = set((json.dumps(c["tree"]), p["obs"]["text"]) for c in obs for p in c["pats"] if p["exp"])
    c = obs[len(obs) // 2]
    R.sample(dict(tree=[("/".join("".join(n) for n in e["path"]), e["kind"]) for e in c["entries"]],
                  patterns=[dict(pattern=p["obs"]["text"], result=["/".join("".join(n) for n in r) for r in p["obs"]["res"]]) for p in c["pats"][:6]]))


def replay(R, doc):
    c = doc["replay"]["case"]
    obs, _ = R.drive("glob", [c])
    path = R.path("obs", "glob.ndjson")
    vlib.write_ndjson(path, obs)
    r2 = R.tlc("GlobCheck", "INIT Init\nNEXT Next\nINVARIANT Chk\n", env={"VERIF_OBS": path}, workers=1, name="GlobCheck")
    if any(p and p[0] == "MISMATCH" for p in r2.prints):
        R.violation("replay: glob still differs", doc["replay"], coords=dict(pattern=obs[0]["pats"][0]["obs"]["text"]))
    R.evaluations = 1
