"""C16 -- pathname expansion returns exactly the existing matching paths, in sorted order.

specs/Glob.tla is the reference (component-wise matching with Pattern.tla's
matcher, the hidden-file rule, directories only before a slash, literal
components by existence, escapes).  GlobGen enumerates every tree over four
top-level names (plain, two characters, dot file, a name with a pattern
character) with six shapes each (absent, file, empty directory, directory with
a file, directory with a dot file, dangling symlink) and every pattern of one
or two components from a pool of eleven components, with and without trailing
slash, and computes the expected set.  The driver builds each tree in a
scratch directory and runs the real pattern.Glob; GlobCheck validates set
equality (modulo the optional . and .. members), existence of every result,
absence of duplicates, ascending byte order and the trailing-slash rule."""
import json
import vlib

LEVEL = "model_checking"


def run(R):
    R.rule = ("cases = (tree, pattern): 6^4 = 1296 trees x 264 patterns (11 components: literal, *, ?, a*, .*, [ab]*, escaped, a?, "
              "escaped star, *b, ??; one or two components; with / without trailing slash); exhaustive; distinct_nontrivial = "
              "distinct (tree, pattern) pairs with a non-empty expected result")
    R.assumptions = ["relative patterns in a scratch directory (absolute patterns and repeated slashes are not generated)",
                     "'.' and '..' are optional members for components that begin with a literal period",
                     "a component followed by a slash selects directories, following symbolic links (a dangling link is not a directory)"]
    res = R.tlc("GlobGen", "INIT Init\nNEXT Next\nINVARIANT Emit\n", name="GlobGen", timeout=3000)
    cases = [json.loads(p[1]) for p in res.prints if p and p[0] == "CASE"]
    if len(cases) != 1296:
        raise vlib.MachineryError("GlobGen produced %d trees" % len(cases))
    if R.tier == "quick":
        import random
        cases = random.Random(R.seed).sample(cases, 400)
    obs, _ = R.drive("glob", cases, shards=vlib.NCPU, timeout=3000)
    if len(obs) != len(cases):
        raise vlib.MachineryError("driver returned %d of %d" % (len(obs), len(cases)))
    bad = []
    shard = 150
    for s in range(0, len(obs), shard):
        part = obs[s:s + shard]
        path = R.path("obs", "glob-%d.ndjson" % s)
        vlib.write_ndjson(path, part)
        r2 = R.tlc("GlobCheck", "INIT Init\nNEXT Next\nINVARIANT Chk\n", env={"VERIF_OBS": path}, workers=1, name="GlobCheck%d" % s, timeout=3000)
        if r2.distinct != len(part):
            raise vlib.MachineryError("GlobCheck visited %d of %d" % (r2.distinct, len(part)))
        bad += [(s + p[1] - 1, p[2] - 1) for p in r2.prints if p and p[0] == "MISMATCH"]
    for k, i in bad:
        c = obs[k]
        p = c["pats"][i]
        ex = dict(tree=[("/".join("".join(n) for n in e["path"]), e["kind"]) for e in c["entries"]], pattern=p["obs"]["text"],
                  expected=["/".join("".join(n) for n in r) for r in p["exp"]],
                  observed=["/".join("".join(n) for n in r) for r in p["obs"]["res"]],
                  flags={k2: p["obs"][k2] for k2 in ("err", "sorted", "nodup", "lstat", "slashok", "panic", "dots")})
        R.violation("Glob differs from Glob.tla: %s" % json.dumps(ex, ensure_ascii=False)[:1500],
                    dict(kind="glob", case=dict(tree=c["tree"], entries=c["entries"], pats=[{k2: p[k2] for k2 in ("comps", "slash", "exp")}])),
                    coords=dict(pattern=p["obs"]["text"]))
    R.exhaustive = R.tier != "quick"
    R.evaluations = sum(len(c["pats"]) for c in obs)
    R.traces = len(obs)
    R.nontrivial = set((json.dumps(c["tree"]), p["obs"]["text"]) for c in obs for p in c["pats"] if p["exp"])
    c = obs[len(obs) // 2]
    R.sample(dict(tree=[("/".join("".join(n) for n in e["path"]), e["kind"]) for e in c["entries"]],
                  patterns=[dict(pattern=p["obs"]["text"], result=["/".join("".join(n) for n in r) for r in p["obs"]["res"]]) for p in c["pats"][:6]]))


def replay(R, doc):
    c = doc["replay"]["case"]
    obs, _ = R.drive("glob", [c])
    path = R.path("obs", "glob.ndjson")
    vlib.write_ndjson(path, obs)
    r2 = R.tlc("GlobCheck", "INIT Init\nNEXT Next\nINVARIANT Chk\n", env={"VERIF_OBS": path}, workers=1, name="GlobCheck")
    if any(p and p[0] == "MISMATCH" for p in r2.prints):
        R.violation("replay: glob still differs", doc["replay"], coords=dict(pattern=obs[0]["pats"][0]["obs"]["text"]))
    R.evaluations = 1
