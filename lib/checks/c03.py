"""C03 -- ill-formed programs are rejected with a located syntax error.

specs/ShellRec.tla is an independent recursive-descent recogniser of the
dialect (position rules for reserved words).  ShellRecGen enumerates by BFS
every viable prefix up to MaxLen tokens extended by every token of the
alphabet and by every broken word (unterminated quote / expansion), and -- in
simulation -- long accepted strings together with all their single-token
deletions, duplications, adjacent swaps and insertions; each string is
classified by ShellRec.  The real parser runs on every string (from a rune
scanner, so that consumption is observed); RecCheck.tla validates: accepted =>
nil error and exactly the command line consumed; otherwise => non-nil error,
and a syntax error carries the caller's name and a position that is a token
start inside the consumed text."""
import json
import vlib

LEVEL = "model_checking"

ALPHA = ["a", "a$b", "fi''", "break", "x=1", "!", "{", "}", "for", "case", "esac", "in", "if", "elif", "then", "else", "fi", "while", "until",
         "do", "done", ";", "&", "&&", "||", "|", ";;", "(", ")", "\n", ">", "2>", "((1))"]
BROKEN = ["`a)", "`a;a)", "`(a`)", "${#x:-y}", "${#x#y}", "${1a}", "'u", "\"u", "${u", "$(u", "$((u", "`u", "((1) ))", "((1)", "$((1) ))", "${u:", "${u:-'}", "\"$(u\"", "\"${u\"", "${", "${}"]


def tla_seq(xs):
    return "<<" + ", ".join('"' + x.replace("\\", "\\\\").replace('"', '\\"').replace("\n", "\\n") + '"' for x in xs) + ">>"


BASES = ["for a in a ; do a ; done", "for a do a ; done", "for a \n in a a \n do a \n done", "if a ; then a ; elif a ; then a ; else a ; fi",
         "while a ; do a ; done", "until a \n do a \n done > a", "case a in a ) a ;; esac", "case a in ( a | a ) a ;; a ) esac",
         "a ( ) { a ; }", "break ; a", "{ a ; } > a", "( a ) | ! a && a", "x=1 a > a 2> a &", "((1)) ; a", "! a | a || { a ; }", "if a ; then ( a ) fi",
         "{ if a ; then a ; elif a ; then a ; fi ; }", "( if a ; then a ; else a ; fi )", "while if a ; then a ; elif a ; then a ; else a ; fi ; do a ; done"]


# the longest prefixes are enumerated over a smaller alphabet (one representative of each kind of token)
ALPHA_SMALL = [t for t in ALPHA if t not in ("until", "2>", "||", "a$b", "fi''", "break", "((1))", "elif", "else")]


def gen(R, maxlen, mutations, simulate=None, name="rec", bases=None, alpha=None):
    defs = "MCAlpha == %s\nMCBroken == %s\n" % (tla_seq(alpha or ALPHA), tla_seq(BROKEN))
    if bases:
        defs += "MCInit == toks \\in {%s}\n" % ", ".join(tla_seq(["\n" if t == "\\n" else t for t in b.split(" ")]) for b in bases)
    cfg = (("INIT MCInit\nNEXT Stutter\n" if bases else "INIT Init\nNEXT Next\n") + "INVARIANT Emit\nCONSTANTS\n Alpha <- MCAlpha\n Broken <- MCBroken\n MaxLen = %d\n Mutations = %s\n"
           % (maxlen, "TRUE" if mutations else "FALSE"))
    if simulate:
        res = R.tlc("ShellRecGen", cfg, defs=defs, simulate="num=%d" % simulate, depth=maxlen + 2, workers=8, name=name, timeout=3000)
    else:
        res = R.tlc("ShellRecGen", cfg, defs=defs, name=name, timeout=3000)
    out, seen = [], set()
    for p in res.prints:
        if p and p[0] == "CASE":
            c = json.loads(p[1])
            if c["src"] not in seen:
                seen.add(c["src"])
                out.append(c)
    return out


def validate(R, recs, name):
    return sorted(s + p[1] - 1 for s, p in R.pvalidate("RecCheck", recs, 25000, name) if p[0] == "MISMATCH")


def check(R, cases, name):
    for i, c in enumerate(cases):
        c["id"] = "%s%d" % (name, i)
    obs, _ = R.drive("parse", [dict(id=c["id"], src=c["src"], source="scanner") for c in cases], shards=vlib.NCPU)
    byid = {o["id"]: o for o in obs}
    if len(byid) != len(cases):
        raise vlib.MachineryError("driver returned %d of %d" % (len(byid), len(cases)))
    recs = []
    for c in cases:
        o = byid[c["id"]]
        recs.append(dict(c, obs=dict(err=o["err"], remaining=o["remaining"], panic=o["panic"], n=o["n"])))
    bad = validate(R, recs, name)
    for k in bad:
        r = recs[k]
        ex = dict(src=r["src"], tokens=r["toks"], classified=r["cls"], n=r["n"], err=r["obs"]["err"],
                  consumed=r["total"] - r["obs"]["remaining"], panic=r["obs"]["panic"])
        R.violation("parser disagrees with ShellRec: %s" % json.dumps(ex, ensure_ascii=False)[:1200],
                    dict(kind="rec", case={k2: r[k2] for k2 in r if k2 not in ("obs",)}), coords=dict(src=r["src"]))
    return recs


def run(R):
    R.rule = ("cases = token strings classified by ShellRec.tla: every viable prefix up to 3 tokens over a 33-token alphabet and up to 4 tokens over 24 of them ( words, "
              "assignment, all reserved words, all control operators, newline, redirections, (( ))) extended by one more token or by a "
              "broken word; plus long accepted strings with all single-token deletions / duplications / swaps / insertions / substitutions, and the same mutations of 18 base programs (one per compound construct); "
              "distinct_nontrivial = distinct rejected or incomplete strings whose first offending token is not the first token")
    R.assumptions = ["ShellRec.tla's reading of XCU 2.10 (cross-validated at design time against dash -n and bash -n on all strings of "
                     "<= 3 tokens, and against the parser on 7 M strings: design-notes/)",
                     "the position may be the start of any token of the dialect inside the consumed text (IO_NUMBER/operator and "
                     "(( word )) are split)", "messages are not compared"]
    if R.tier == "quick":
        parts = R.parallel([lambda: gen(R, 3, False, name="recbfs3"), lambda: gen(R, 4, False, name="recbfs4", alpha=ALPHA_SMALL),
                            lambda: gen(R, 9, True, simulate=30, name="recmut"), lambda: gen(R, 20, True, name="recbases", bases=BASES)])
        cases = parts[0] + parts[1]
        mut = parts[2] + parts[3]
    else:
        tiny = ["a", "x=1", "!", "{", "}", "for", "case", "esac", "in", "if", "then", "fi", "while", "do", "done", ";", "&&", "|", ";;", "(", ")", "\n", ">"]
        parts = R.parallel([lambda: gen(R, 4, False, name="recbfs4"), lambda: gen(R, 5, False, name="recbfs5", alpha=tiny),
                            lambda: gen(R, 12, True, simulate=600, name="recmut")])
        cases = parts[0] + parts[1]
        mut = parts[2]
        mut += gen(R, 20, True, name="recbases", bases=BASES)
    # unterminated here-documents (outside the token alphabet of ShellRec): must be rejected
    for src in ("cat <<E", "cat <<E; a", "a $(cat <<E)\n", "cat <<E\n", "cat <<E\nx", "cat <<E <<F\nx\nE\n", "{ cat <<E\n}"):
        cases.append(dict(toks=[src], kind="heredoc", cls="broken", n=1, src=src, starts=[[1, 1]], offs=[0],
                          lines=[0] + [i + 1 for i, ch in enumerate(src) if ch == "\n"], total=len(src)))
    seen = set(c["src"] for c in cases)
    mut = [c for c in mut if c["src"] not in seen]
    recs = check(R, cases + mut, "r")
    R.evaluations = len(recs)
    R.traces = len(recs)
    R.nontrivial = set(r["src"] for r in recs if r["cls"] in ("reject", "incomplete", "broken") and r["n"] > 1)
    import collections
    R.notes["by_class"] = dict(collections.Counter(r["cls"] for r in recs))
    R.notes["mutants"] = sum(1 for r in recs if r["kind"] == "mutant")
    for r in [x for x in recs if x["cls"] == "reject"][100:102] + [x for x in recs if x["kind"] == "mutant"][:2]:
        R.sample(dict(src=r["src"], classified=r["cls"], offending_or_consumed_tokens=r["n"], err=r["obs"]["err"]))
    R.exhaustive = False


def replay(R, doc):
    check(R, [doc["replay"]["case"]], "replay")
    R.evaluations = 1
