"""C10 -- a failing source reader is reported as that failure, never as success.

For every generated program the COMPLETE set of single-fault positions is
enumerated: for every rune index k in 0..len the source starts failing at k,
as a custom io.RuneScanner and as an io.Reader.  Fault.tla states what each
observation must satisfy; FaultCheck validates every (program, k) pair."""
import json
import vlib, shellgen

LEVEL = "fault_enumeration"


def slim(o):
    return {k: o[k] for k in ("err", "sk", "panic", "delivered", "erris") if k in o} | {"delivered": o.get("delivered", False), "erris": o.get("erris", False)}


def observe(R, cases):
    obs, _ = R.drive("faults", [dict(id=c["id"], src=c["src"]) for c in cases], shards=vlib.NCPU, timeout=3000)
    if len(obs) != len(cases):
        raise vlib.MachineryError("driver returned %d of %d" % (len(obs), len(cases)))
    recs = []
    for o in obs:
        recs.append(dict(id=o["id"], src=o["src"], len=o["len"], base=slim(o["base"]),
                         faults=[dict(k=f["k"], sc=slim(f["sc"]), rd=slim(f["rd"])) for f in o["faults"]],
                         inner=[dict(k=f["k"], b=f["b"], rd=slim(f["rd"])) for f in o.get("inner", [])]))
    return recs


def validate(R, recs, name):
    bad = []
    shard = 1500
    for s in range(0, len(recs), shard):
        part = recs[s:s + shard]
        path = R.path("obs", "%s-%d.ndjson" % (name, s))
        vlib.write_ndjson(path, part)
        res = R.tlc("FaultCheck", "INIT Init\nNEXT Next\nINVARIANT Chk\n", env={"VERIF_OBS": path},
                    name="%s-check%d" % (name, s), workers=1, timeout=3000)
        if res.distinct != len(part):
            raise vlib.MachineryError("FaultCheck visited %d of %d" % (res.distinct, len(part)))
        bad += [(s + p[1] - 1, p[2]) for p in res.prints if p and p[0] == "MISMATCH"]
    return sorted(bad)


def report(R, recs, bad):
    for k, pos in bad:
        r = recs[k]
        f = r["faults"][pos] if pos >= 0 else None
        inner = [g for g in r.get("inner", []) if g["k"] == pos]
        ex = dict(src=r["src"], fault_at=pos, prefix=r["src"][:max(pos, 0)])
        if f:
            ex.update(scanner=dict(delivered=f["sc"]["delivered"], erris=f["sc"]["erris"], err=f["sc"]["err"], panic=f["sc"]["panic"]),
                      reader=dict(erris=f["rd"]["erris"], err=f["rd"]["err"], panic=f["rd"]["panic"]))
        if inner:
            ex["reader_failing_inside_the_character"] = [dict(byte=g["b"], erris=g["rd"]["erris"], err=g["rd"]["err"]) for g in inner]
        R.violation("read fault not reported as such: %s" % json.dumps(ex, ensure_ascii=False)[:1500],
                    dict(kind="faults", case=dict(id=r["id"], src=r["src"]), k=pos), coords=dict(src=r["src"], k=pos))


def run(R):
    R.rule = ("cases = (program, k, source kind): for every ShellGen program every rune index k in [0, len] as the first failing "
              "read, for a custom io.RuneScanner and for an io.Reader -- the complete single-fault set of each program; "
              "distinct_nontrivial = distinct (program, k) whose fault was actually delivered to the parser")
    R.assumptions = ["the fault persists (every read from k on fails); the error is a wrapped sentinel, at every other position one that also wraps io.EOF (alternating between the two deliveries)", "delivery is observed on the RuneScanner run; the io.Reader run of "
                     "the same k must agree because the parser is deterministic in the runes it reads"]
    import random
    rnd = random.Random(R.seed)
    b3 = shellgen.bfs(R, 3)
    multi = [c for c in b3 if any(x in c["src"] for x in (";;", "&&", "||", ">>", "<<", ">|", "<>", ">&", "<&"))]
    if R.tier == "quick":
        brk = [c for c in b3 if ";;" in c["src"]]      # a truncated ';;' is itself a syntax error
        cases = shellgen.dedup(shellgen.bfs(R, 2) + brk + rnd.sample(multi, 1500) + shellgen.simulate(R, 8))
        R.notes["programs_with_case_break"] = len(brk)
    else:
        cases = shellgen.dedup(b3 + shellgen.simulate(R, 1500))
    # the same programs with a trailing comment in front of every newline (a fault inside a comment)
    from checks import c09
    lay = c09.gen(R, 2, 0)
    cm = []
    for c in rnd.sample(lay, min(len(lay), 600 if R.tier == "quick" else len(lay))):
        vs = [v for v in c["variants"] if v["kind"] in ("comment", "comment-eof")]
        cm += [dict(src=v["src"]) for v in vs[:3]]
    cases = cases + shellgen.dedup(cm)
    R.notes["commented_programs"] = len(cm)
    for i, c in enumerate(cases):
        c["id"] = "f%d" % i
    recs = observe(R, cases)
    bad = validate(R, recs, "c10")
    report(R, recs, bad)
    R.evaluations = sum(2 * len(r["faults"]) + len(r["inner"]) for r in recs)
    R.notes["faults_inside_characters"] = sum(len(r["inner"]) for r in recs)
    R.nontrivial = set((r["id"], f["k"]) for r in recs for f in r["faults"] if f["sc"]["delivered"])
    R.exhaustive = True
    for r in recs[len(recs) // 2: len(recs) // 2 + 2]:
        R.sample(dict(src=r["src"], fault_positions=len(r["faults"]),
                      delivered_at=[f["k"] for f in r["faults"] if f["sc"]["delivered"]][:20]))
    R.notes.update(programs=len(recs), fault_points=sum(len(r["faults"]) for r in recs),
                   states=R.states, transitions=R.transitions)


def replay(R, doc):
    c = doc["replay"]["case"]
    recs = observe(R, [c])
    bad = validate(R, recs, "replay")
    report(R, recs, bad)
    R.evaluations = 1
