"""C14 -- field splitting cuts exactly at unquoted IFS characters.

specs/Split.tla holds two descriptions of splitting (operational machine and
declarative statement); SplitGen enumerates every word up to MaxLen segments
(TLC BFS), checks the two against each other for every IFS setting
(invariant ModelOK) and prints the cases; the driver expands every word with
the real ExecEnv.Expand under every IFS setting, in five constructions
(literal text / text coming from parameter expansions); SplitCheck validates
every record, recomputing the expectation from the segment ids."""
import json
import vlib

LEVEL = "model_checking"


def check_records(R, obs, name):
    bad_all = [s + p[1] - 1 for s, p in R.pvalidate("SplitCheck", obs, 8000, name) if p[0] == "MISMATCH"]
    return sorted(bad_all)


IFSNAMES = ["unset", "default", "sp_comma", "comma", "one", "empty", "sp_u1", "comma_one", "sp_only"]


def explain(rec, exp):
    for variant in ("lit", "var", "arith", "dflt"):
        for i, n in enumerate(IFSNAMES):
            if exp is not None and rec["obs"][variant][i] != exp[i]:
                return dict(segs=rec["segs"], variant=variant, ifs=n, expected=exp[i], observed=rec["obs"][variant][i],
                            errs=rec.get("errs"))
    return dict(segs=rec["segs"], errs=rec.get("errs"))


def run(R):
    R.rule = ("cases = (word, IFS setting, construction): every word up to MaxLen segments over 15 segment kinds "
              "(7 characters x unquoted/quoted + empty quotes) x 9 IFS settings x 5 constructions (literal / parameter "
              "expansion / digits out of an arithmetic expansion / default word of ${nosuch:-word} / behind ~/ with IFS characters in HOME); distinct_nontrivial = distinct words holding at least one unquoted delimiter candidate and one "
              "other segment")
    R.assumptions = ["the statement's reading that empty fields without quoted material are dropped (so fields are the maximal "
                     "runs of non-delimiter positions) is checked against the operational rules inside TLC (ModelOK)",
                     "unquoted literal text is subject to splitting, as the statement says ('its unquoted text')"]
    maxlen = 4 if R.tier == "quick" else 5
    cfg = "INIT Init\nNEXT Next\nINVARIANTS ModelOK Emit\nCONSTANTS MaxLen = %d\n EmitCases = TRUE\n" % maxlen
    res = R.tlc("SplitGen", cfg, timeout=3000)
    if res.violated:
        raise vlib.MachineryError("Split.tla: operational and declarative descriptions disagree: %s" % res.violated)
    cases = [json.loads(p[1]) for p in res.prints if p and p[0] == "CASE"]
    expect_n = sum(15 ** i for i in range(maxlen + 1))
    if len(cases) != expect_n:
        raise vlib.MachineryError("SplitGen: %d cases, expected %d" % (len(cases), expect_n))
    if R.tier == "thorough":
        # model level only: one more segment
        res6 = R.tlc("SplitGen", "INIT Init\nNEXT Next\nINVARIANTS ModelOK\nCONSTANTS MaxLen = 6\n EmitCases = FALSE\n",
                     name="SplitModel6", timeout=3000)
        if res6.violated:
            raise vlib.MachineryError("Split.tla disagreement at length 6")
    # vacuity guard: dropping of empty fields must be reachable
    g = R.tlc("SplitGen", "INIT Init\nNEXT Next\nINVARIANTS NoEmptyDropped\nCONSTANTS MaxLen = 2\n EmitCases = FALSE\n",
              name="SplitVacuity", count=False)
    if "NoEmptyDropped" not in g.violated:
        raise vlib.MachineryError("vacuity guard: empty-field dropping never exercised")
    # seeded random longer words (the model agreement is checked on them, too)
    sim = R.tlc("SplitGen", "INIT Init\nNEXT Next\nINVARIANTS ModelOK Emit\nCONSTANTS MaxLen = 9\n EmitCases = TRUE\n", simulate="num=%d" % (4 if R.tier == "quick" else 100),
                depth=10, workers=8, name="SplitSim", timeout=3000)
    if sim.violated:
        raise vlib.MachineryError("Split.tla: operational and declarative descriptions disagree on a random word: %s" % sim.violated)
    seen = set(tuple(c["segs"]) for c in cases)
    nsim = 0
    for p in sim.prints:
        if p and p[0] == "CASE":
            c = json.loads(p[1])
            if tuple(c["segs"]) not in seen:
                seen.add(tuple(c["segs"]))
                cases.append(c)
                nsim += 1
    R.notes["random_longer_words"] = nsim
    exp = {tuple(c["segs"]): c["exp"] for c in cases}
    obs, _ = R.drive("split", [dict(segs=c["segs"]) for c in cases], shards=vlib.NCPU)
    if len(obs) != len(cases):
        raise vlib.MachineryError("driver returned %d of %d" % (len(obs), len(cases)))
    bad = check_records(R, obs, "c14")
    R.exhaustive = True
    R.evaluations = len(obs) * 40
    R.traces = len(obs)
    for rec in obs:
        s = rec["segs"]
        if len(s) >= 2 and any(2 <= x <= 6 for x in s):
            R.nontrivial.add(tuple(s))
    for k in bad:
        rec = obs[k]
        ex = explain(rec, exp.get(tuple(rec["segs"])))
        R.violation("field splitting disagrees with Split.tla: %s" % json.dumps(ex, ensure_ascii=False),
                    dict(kind="split", case=dict(segs=rec["segs"]), explain=ex), coords=dict(segs=rec["segs"]))
    for rec in obs[len(obs) // 3: len(obs) // 3 + 2]:
        R.sample(dict(segs=rec["segs"], fields_ifs_sp_comma=rec["obs"]["lit"][2]))
    R.notes["max_segments"] = maxlen


def replay(R, doc):
    rp = doc["replay"]
    obs, _ = R.drive("split", [rp["case"]])
    bad = check_records(R, obs, "replay")
    R.evaluations = 16
    for k in bad:
        R.violation("replay: %s" % json.dumps(explain(obs[k], None), ensure_ascii=False), rp, coords=dict(segs=obs[k]["segs"]))
