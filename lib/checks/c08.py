"""C08 -- here-document bodies are attached to the right redirection, verbatim.

ShellGrammar.tla's here-document focus (start symbol hdprog) derives commands
with 1-3 here-documents at every kind of redirection site (simple command,
pipeline, and-or list, ;-list, on and inside compound commands, inside $( ),
across a linebreak newline) with every body/delimiter of the pool (empty first
line, prefix/suffix of the delimiter, tab indentation, $x, $(..), backquotes,
backslashes, quoted / unquoted / partially quoted delimiters, <<-); all
combinations are enumerated by TLC.  The general generator adds here-documents
in arbitrary programs.  HdCheck.tla validates every observation: bodies and
delimiter lines byte for byte in source order, and the skeleton (expansions
parsed in the body iff the delimiter is unquoted)."""
import json
import vlib, shellgen

LEVEL = "model_checking"


def focus(R):
    cfg = "INIT Init\nNEXT Next\nINVARIANT EmitCase\nCONSTANTS MaxDev = 1\n MaxDepth = 3\n StartSym = \"hdprog\"\n"
    res = R.tlc("ShellGen", cfg, name="ShellGen-hdprog", timeout=3000)
    return shellgen._cases(res)


def validate(R, recs, name):
    bad = []
    shard = 20000
    for s in range(0, len(recs), shard):
        part = recs[s:s + shard]
        path = R.path("obs", "%s-%d.ndjson" % (name, s))
        vlib.write_ndjson(path, part)
        res = R.tlc("HdCheck", "INIT Init\nNEXT Next\nINVARIANT Chk\n", env={"VERIF_OBS": path},
                    name="%s-check%d" % (name, s), workers=1, timeout=3000)
        if res.distinct != len(part):
            raise vlib.MachineryError("HdCheck visited %d of %d" % (res.distinct, len(part)))
        bad += [s + p[1] - 1 for p in res.prints if p and p[0] == "MISMATCH"]
    return sorted(bad)


def check(R, cases, name):
    for i, c in enumerate(cases):
        c["id"] = "%s%d" % (name, i)
    obs, _ = R.drive("parse", [dict(id=c["id"], src=c["src"]) for c in cases], shards=vlib.NCPU)
    byid = {o["id"]: o for o in obs}
    if len(byid) != len(cases):
        raise vlib.MachineryError("driver returned %d of %d" % (len(byid), len(cases)))
    recs = [dict(id=c["id"], src=c["src"], sk=c["sk"], hd=c["hd"], obs=byid[c["id"]]) for c in cases]
    bad = validate(R, recs, name)
    for k in bad:
        r = recs[k]
        o = r["obs"]
        ex = dict(src=r["src"], err=o["err"], panic=o["panic"], expected_hd=r["hd"], observed_hd=o["hd"],
                  same_skeleton=(o["sk"] == r["sk"]))
        R.violation("here-document attachment differs: %s" % json.dumps(ex, ensure_ascii=False)[:1600],
                    dict(kind="heredoc", case=dict(src=r["src"], sk=r["sk"], hd=r["hd"])), coords=dict(src=r["src"]))
    return recs


def run(R):
    R.rule = ("cases = commands with here-documents: every combination of 1-3 pool entries (14 body/delimiter/operator variants) "
              "at 12 kinds of redirection site (TLC BFS over the hdprog focus of the grammar), plus all programs with "
              "here-documents among the derivations within the deviation budget and seeded random ones; distinct_nontrivial = "
              "distinct commands with at least two here-documents or a quoted / <<- delimiter")
    R.assumptions = ["<<- bodies are kept verbatim (only the delimiter line may be tab-indented; stripping is left to the "
                     "interpreter) -- pinned by the repository's tests", "both extreme schedules (lexer-eager / parser-eager) are forced for a sample of the focus programs; all schedules of the protocol are C06's"]
    cases = focus(R)
    gen = shellgen.bfs(R, 3) if R.tier == "thorough" else shellgen.bfs(R, 2)
    sim = shellgen.simulate(R, 300 if R.tier == "quick" else 5000)
    extra = [c for c in shellgen.dedup(gen + sim) if c["hd"]]
    allc = shellgen.dedup(cases + extra)
    recs = check(R, allc, "h")
    # each run under both extreme schedules of the lexer/parser pair (gated scheduler of the harness, see C06)
    import random
    rnd = random.Random(R.seed)
    sample = rnd.sample(cases, min(len(cases), 1000 if R.tier == "quick" else len(cases)))
    gated = []
    for i, c in enumerate(sample):
        for pol in ("lexer", "parser"):
            gated.append(dict(id="g%d.%s" % (i, pol), kind="parse", src=c["src"], policy=pol))
    gobs, _ = R.drive("sched", gated, shards=vlib.NCPU, timeout=3000)
    if len(gobs) != len(gated):
        raise vlib.MachineryError("sched driver returned %d of %d" % (len(gobs), len(gated)))
    grecs = []
    for o in gobs:
        c = sample[int(o["id"][1:].split(".")[0])]
        grecs.append(dict(id=o["id"], src=c["src"], sk=c["sk"], hd=c["hd"], policy=o["policy"],
                          obs=dict(err=o["err"], panic=o["panic"], projerr=o["projerr"], sk=o["sk"], shapes=o["shapes"], hd=o["hd"])))
    gbad = validate(R, grecs, "hg")
    for k in gbad:
        r = grecs[k]
        ex = dict(src=r["src"], schedule=r["policy"] + "-eager", err=r["obs"]["err"], expected_hd=r["hd"], observed_hd=r["obs"]["hd"],
                  same_skeleton=(r["obs"]["sk"] == r["sk"]))
        R.violation("here-document attachment differs under a forced schedule: %s" % json.dumps(ex, ensure_ascii=False)[:1600],
                    dict(kind="heredoc", case=dict(src=r["src"], sk=r["sk"], hd=r["hd"])), coords=dict(src=r["src"]))
    R.notes["gated_runs"] = len(grecs)
    R.evaluations = len(recs) + len(grecs)
    R.traces = len(recs)
    R.nontrivial = set(r["src"] for r in recs if len(r["hd"]) >= 2 or "<<-" in r["src"] or "'E'" in r["src"] or "\\E" in r["src"])
    for r in recs[len(cases) // 2: len(cases) // 2 + 2] + recs[-1:]:
        R.sample(dict(src=r["src"], here_documents=r["hd"]))
    R.notes.update(focus_programs=len(cases), other_programs_with_heredocs=len(extra))
    R.exhaustive = False


def replay(R, doc):
    c = doc["replay"]["case"]
    check(R, [dict(src=c["src"], sk=c["sk"], hd=c["hd"])], "replay")
    R.evaluations = 1
