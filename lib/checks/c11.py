"""C11 -- arithmetic evaluation follows C expression semantics on 64-bit signed integers.

specs/Int64.tla implements two's-complement 64-bit arithmetic for TLC (whose
integers are 32-bit) and is self-tested against a vector table computed with
Go's int64; specs/Arith.tla is the reference evaluator (C precedence by
construction: trees; short circuit; sequencing; faults; no assignment after the
first fault; values C leaves undefined are excluded) and the renderer (minimal
parentheses by C precedence / associativity, and fully parenthesised).
ArithGen enumerates all trees of depth 1 over every operator and the operand
set, depth-2 trees with side-effecting / faulting / overflowing subtrees in
every operand position, all pairs of binary operators in both shapes, each
with four stores (decimal / octal+hex / empty+garbage / MinInt64+(-1)).  The
driver evaluates both renderings three times with the real ExecEnv.Eval;
ArithCheck validates value, fault <=> ArithExprError, the store afterwards and
run-to-run identity.  Observations that agree with the eager variant of the
evaluator (operands that C skips are evaluated) are the known finding
F-C11-eager-operands."""
import json
import vlib

LEVEL = "model_checking"


def selftest(R):
    import subprocess
    drv = R.build_driver()
    p = R.path("obs", "int64vec.ndjson")
    out = subprocess.run([drv, "int64vec"], input=b"", stdout=subprocess.PIPE).stdout.decode()
    with open(p, "w") as f:
        f.write(out)
    n = out.count("\n")
    res = R.tlc("Int64Test", "INIT Init\nNEXT Next\nINVARIANT Chk\n", env={"VERIF_OBS": p}, workers=4, name="Int64Test", timeout=1200)
    bad = [x for x in res.prints if x and x[0] == "MISMATCH"]
    if bad or res.distinct != n:
        raise vlib.MachineryError("Int64.tla self-test failed: %s (visited %d of %d)" % (bad[:2], res.distinct, n))
    return n


def run(R):
    R.rule = ("cases = (tree, store, rendering): all expression trees of depth 1 over every operator (unary + - ~ !, 16 binary, && ||, ?:, "
              "= and the ten compound assignments, prefix/postfix ++ --, non-lvalue assignments) and 12 operands (0 1 2 3 7 -1 017 0x1f "
              "08 MaxInt64 x y), depth-2 trees with 15 effect/fault/overflow subtrees in every position, all 256 pairs of binary "
              "operators in both shapes x 4 stores x {minimal parentheses, fully parenthesised (variables and lvalues too), no blanks} x 3 runs; plus seeded random trees of depth 3-4 (ArithSim); undefined-in-C cases "
              "excluded by the spec; distinct_nontrivial = distinct trees with two or more operators or a side effect")
    R.assumptions = ["Int64.tla is trusted after its self-test against Go's int64 on a vector table (run in this check)",
                     "'undefined in C' = a variable modified and otherwise accessed anywhere in the expression, shift count >= 64, "
                     "MinInt64 / -1, MinInt64 % -1", "error messages are not compared"]
    nvec = selftest(R)
    res = R.tlc("ArithGen", "INIT Init\nNEXT Next\nINVARIANT Emit\n", name="ArithGen", timeout=3000)
    cases = [json.loads(p[1]) for p in res.prints if p and p[0] == "CASE"]
    if len(cases) < 10000:
        raise vlib.MachineryError("ArithGen produced %d cases" % len(cases))
    if R.tier == "quick":
        import random
        rnd = random.Random(R.seed)
        # the quick tier takes every case with a skipped operand or a fault and a seeded half of the rest
        cases = [c for c in cases if c["exp"] != c["eager"] or c["exp"]["f"] or rnd.random() < 0.5]
    # random deeper trees (depth 3-4) from the stack machine of ArithSim.tla
    sim = R.tlc("ArithSim", "INIT SInit\nNEXT SNext\nINVARIANT SEmit\nCONSTANT MaxDepth = 4\n", simulate="num=%d" % (40 if R.tier == "quick" else 600),
                depth=14, workers=8, name="ArithSim", timeout=3000)
    seen = set((c["min"], c["store"]) for c in cases)
    nsim = 0
    for p in sim.prints:
        if p and p[0] == "CASE":
            c = json.loads(p[1])
            if (c["min"], c["store"]) not in seen:
                seen.add((c["min"], c["store"]))
                cases.append(c)
                nsim += 1
    R.notes["simulated_deeper_cases"] = nsim
    obs, _ = R.drive("eval", cases, shards=vlib.NCPU, timeout=3000)
    if len(obs) != len(cases):
        raise vlib.MachineryError("driver returned %d of %d" % (len(obs), len(cases)))
    bad, eager = [], []
    shard = 20000
    for s in range(0, len(obs), shard):
        part = obs[s:s + shard]
        path = R.path("obs", "arith-%d.ndjson" % s)
        vlib.write_ndjson(path, part)
        r2 = R.tlc("ArithCheck", "INIT Init\nNEXT Next\nINVARIANT Chk\n", env={"VERIF_OBS": path}, workers=1, name="ArithCheck%d" % s, timeout=3000)
        if r2.distinct != len(part):
            raise vlib.MachineryError("ArithCheck visited %d of %d" % (r2.distinct, len(part)))
        bad += [s + p[1] - 1 for p in r2.prints if p and p[0] == "MISMATCH"]
        eager += [s + p[1] - 1 for p in r2.prints if p and p[0] == "EAGER"]
    for k in eager:
        o = obs[k]
        R.violation("operand that C skips was evaluated: %s (store %s)" % (o["min"], o["store"]), dict(kind="eval", case=o), coords={"class": "eager"})
    for k in bad:
        o = obs[k]
        ex = dict(expr=o["min"], full=o["full"], store=o["store"], expected=o["exp"], observed_min=o["omin"], observed_full=o["ofull"])
        R.violation("Eval differs from Arith.tla: %s" % json.dumps(ex)[:1600],
                    dict(kind="eval", case={k2: o[k2] for k2 in ("min", "full", "tight", "store", "undef", "exp", "eager")}), coords={"class": "value", "expr": o["min"]})
    R.evaluations = len(obs) * 6
    R.traces = len(obs)
    R.nontrivial = set(o["min"] for o in obs if sum(o["min"].count(x) for x in "+-*/%<>=&|^?~!") >= 2)
    for o in obs[len(obs) // 2: len(obs) // 2 + 3]:
        R.sample(dict(expr=o["min"], store=o["store"], undefined_in_c=o["undef"], expected_fault=o["exp"]["f"], value_bytes_le=o["omin"]["v"], err=o["omin"]["msg"]))
    R.notes.update(int64_vectors=nvec, trees_x_stores=len(obs), eager_cases=len(eager), undefined_excluded=sum(1 for o in obs if o["undef"]))


def replay(R, doc):
    c = doc["replay"]["case"]
    c = {k2: c[k2] for k2 in ("min", "full", "tight", "store", "undef", "exp", "eager")}
    obs, _ = R.drive("eval", [c])
    path = R.path("obs", "arith.ndjson")
    vlib.write_ndjson(path, obs)
    r2 = R.tlc("ArithCheck", "INIT Init\nNEXT Next\nINVARIANT Chk\n", env={"VERIF_OBS": path}, workers=1, name="ArithCheck")
    for p in r2.prints:
        if p and p[0] in ("MISMATCH", "EAGER"):
            R.violation("replay: %s" % c["min"], doc["replay"], coords={"class": "eager" if p[0] == "EAGER" else "value", "expr": c["min"]})
    R.evaluations = 6
