"""C19 -- whatever the parser produces can be printed, measured and expanded without panic.

Input spaces from the specifications: every string up to N characters over the
shell's special characters (CharGen.tla; the accepted ones are fed downstream),
ShellGen programs, accepted ShellRec token strings; for Eval / Match / Glob
every string up to N characters over an arithmetic and a pattern alphabet; all
2^14 Option values with the expected letters (Opts.tla).  For every accepted
source: Pos/End of every node, Fprint under each of the 256 configurations of
PrintRT.tla, Expand of every word under every mode.  Robust.tla validates: no
panic anywhere, only documented error values, Option.String as specified."""
import json
import vlib, shellgen, chargen, printlib
from checks import c03

LEVEL = "exploration"

ARITH_ALPHA = ["0", "1", "8", "9", "x", "a", "+", "-", "*", "/", "%", "(", ")", "<", ">", "=", "!", "&", "|", "^", "~", "?", ":", "SP", "@", ","]
PAT_ALPHA = ["a", "b", "*", "?", "[", "]", "!", "^", "-", "\\", ".", "NL", "/", ":", "=", "U1"]


def run(R):
    R.rule = ("cases = downstream calls: (accepted source) x {Pos/End walk, Fprint x 256 configurations, Expand of every word x 7 modes}; "
              "(string) x {Eval, Match as pattern x 6 modes, Match as subject, Glob}; Option.String for all 2^14 values; "
              "distinct_nontrivial = distinct accepted sources / strings exercised")
    R.assumptions = ["panics are caught per call by recover() in the driver (all downstream entry points run in the caller's goroutine, "
                     "except the arithmetic lexer, whose goroutine panics would kill the worker and fail the run)"]
    cfgs = printlib.configs(R)
    n = 3 if R.tier == "quick" else 4
    srcs = chargen.strings(R, chargen.SHELL_ALPHA, n, name="chars")
    srcs += [c["src"] for c in shellgen.bfs(R, 2)]
    srcs += [c["src"] for c in c03.gen(R, 3, False, name="recbfs") if c["cls"] == "accept"]
    srcs += ["a \\", "\"\"", "''", "cat <<E\nE\n", "cat <<E\n\nE\n", "x=~/a:~b y", "${#*}", "echo ${x#} ${#} $", ">x", "~", "~nosuchuser/x", "a=\\",
             "(( ))", "echo $(( ))", "echo \"$(())\"", "echo ${9223372036854775808}", "echo ${18446744073709551615}", "echo $99999999999999999999", "echo ${00}", "echo ${010}",
             "echo ${99999999999999999999:=w}", "echo ${#99999999999999999999}", "echo ${99999999999999999999}", "(( a -\n   -b ))", "echo ${#*} ${#@} $* $@ \"$*\" \"$@\" ${*:-w} ${@:+w} ${#} ${*%x} ${@#x}", "echo ${a-b$c}", "echo ${a:=/tmp/$U}", "echo ${a#\"$b\"c}"]
    srcs += [c["src"] for c in shellgen.deep(12)]       # nesting depth 1..12 of every compound command
    srcs = list(dict.fromkeys(srcs))
    strs = chargen.strings(R, ARITH_ALPHA, 3, name="arith") + chargen.strings(R, PAT_ALPHA, 3, name="pats")
    # longer arithmetic over a small alphabet (a fault that is not the last thing in the expression), assignment-like words
    strs += chargen.strings(R, ["1", "0", "/", "+", "(", ")", "x"], 5, name="arith5")
    srcs += ["x=" + w for w in chargen.strings(R, ["a", ":", "~", "$", "'", "/"], 4, name="assignwords")]
    strs = list(dict.fromkeys(strs))
    srcs = list(dict.fromkeys(srcs))
    optres = R.tlc("Opts", "INIT Init\nNEXT Next\nINVARIANT Emit\n", name="Opts", workers=4)
    opts = [json.loads(p[1]) for p in optres.prints if p and p[0] == "OPTS"]
    if len(opts) != 64:
        raise vlib.MachineryError("Opts produced %d chunks" % len(opts))
    cases = [dict(kind="src", src=s) for s in srcs] + [dict(kind="str", src=s) for s in strs] + [dict(kind="opts", base=o["base"], exp=o["exp"]) for o in opts]
    obs, _ = R.drive("robust", cases, header=dict(configs=cfgs), shards=vlib.NCPU, timeout=3000)
    if len(obs) != len(cases):
        raise vlib.MachineryError("driver returned %d of %d" % (len(obs), len(cases)))
    obs = [o for o in obs if o["kind"] != "src" or o["accepted"]]
    bad = []
    shard = 40000
    for s in range(0, len(obs), shard):
        part = obs[s:s + shard]
        path = R.path("obs", "robust-%d.ndjson" % s)
        vlib.write_ndjson(path, part)
        r2 = R.tlc("Robust", "INIT Init\nNEXT Next\nINVARIANT Chk\n", env={"VERIF_OBS": path}, workers=1, name="Robust%d" % s, timeout=3000)
        if r2.distinct != len(part):
            raise vlib.MachineryError("Robust visited %d of %d" % (r2.distinct, len(part)))
        bad += [s + p[1] - 1 for p in r2.prints if p and p[0] == "MISMATCH"]
    for k in bad:
        o = obs[k]
        ex = dict(kind=o["kind"], src=o["src"], panics=o["panics"], errs=o["errs"])
        if o["kind"] == "opts":
            diff = [(i, e, g) for i, (e, g) in enumerate(zip(o["exp"], o["got"])) if e != g][:3]
            ex["opts_diff"] = diff
        R.violation("downstream panic / undocumented error: %s" % json.dumps(ex, ensure_ascii=False)[:1500],
                    dict(kind="robust", case=dict(kind=o["kind"], src=o["src"])), coords=dict(src=o["src"], kind=o["kind"]))
    R.evaluations = sum(o["calls"] for o in obs)
    R.nontrivial = set((o["kind"], o["src"]) for o in obs if o["kind"] != "opts")
    for o in obs[len(obs) // 3: len(obs) // 3 + 3]:
        R.sample(dict(kind=o["kind"], src=o["src"], calls=o["calls"], error_classes=o["errs"]))
    R.notes.update(accepted_sources=sum(1 for o in obs if o["kind"] == "src"), strings=len(strs), option_values=16384,
                   states=R.states, transitions=R.transitions)


def replay(R, doc):
    cfgs = printlib.configs(R)
    c = doc["replay"]["case"]
    obs, _ = R.drive("robust", [c], header=dict(configs=cfgs))
    if obs and obs[0]["panics"]:
        R.violation("replay: %s" % json.dumps(obs[0]["panics"])[:600], doc["replay"], coords=dict(src=c.get("src"), kind=c["kind"]))
    R.evaluations = 1
