"""C17 -- alias substitution equals textual replacement at command position and terminates.

specs/Alias.tla is the substitution machine (examined positions, origin sets
that block self-expansion, the trailing-blank rule).  TLC runs it for EVERY
alias table over a small name universe (values up to MaxVal tokens, with and
without trailing blank, including self-reference and cycles) and EVERY source
up to MaxSrc tokens: model-level termination (bounded growth, every run
finishes) and one conformance case per run.  The driver parses the source with
the table and the machine's result without aliases; AliasCheck validates equal
outcome and equal skeleton.  Worker isolation and the watchdog make a
non-terminating substitution in the real code a violation, not a stuck check."""
import json
import vlib

LEVEL = "model_checking"


# three-level chains: a -> b (last word of a's value), b -> two words ending in c or w, c an alias too; with / without trailing blanks
TABLES3 = ('{[n \\in {"a", "b", "c"} |-> CASE n = "a" -> va [] n = "b" -> vb [] OTHER -> vc] : '
           'va \\in [val : {<<"b">>, <<"w", "b">>}, blank : BOOLEAN], '
           'vb \\in [val : {<<"c">>, <<"w">>, <<"w", "c">>, <<"c", "w">>, <<"c", "c">>, <<"w", "w">>}, blank : BOOLEAN], '
           'vc \\in [val : {<<"w">>, <<"a">>}, blank : BOOLEAN]}')


# for / case: a blank-terminated value in front of a for list, an alias whose name is a reserved word
TABLES5 = ('{[n \\in {"a", "b", "in"} |-> CASE n = "a" -> va [] n = "b" -> vb [] OTHER -> vi] : '
           'va \\in [val : {<<"for", "w", "in">>, <<"case", "w", "in">>, <<"case">>, <<"w", "$(", "b", ")", "w">>, <<"w">>}, blank : BOOLEAN], '
           'vb \\in [val : {<<"w">>, <<"a">>}, blank : BOOLEAN], vi \\in [val : {<<"w">>}, blank : {FALSE}]} '
           '\\cup {[n \\in {"a", "b"} |-> CASE n = "a" -> va [] OTHER -> vb] : '
           'va \\in [val : {<<"for", "w", "in">>, <<"case", "w", "in">>}, blank : BOOLEAN], vb \\in [val : {<<"w">>, <<"b", "w">>}, blank : BOOLEAN]}')
SOURCES5 = ["a b w ; do b ; done", "a w b ; do w ; done", "a b ; do a ; done", "for w in b a ; do w ; done", "case w in b ) b ;; esac", "case b in w ) a ;; esac",
            "a b ) w ;; esac", "a w ) b ;; b ) w ;; esac", "for b in w ; do w ; done", "for w in w ; do in ; done",
            "a b in w ) w ;; esac", "a w", "a", "w ; a b"]


def gen(R, maxval, maxsrc, valtoks, srctoks, name, tables=None, sources=None):
    def seq(xs):
        return "<<" + ", ".join('"' + x.replace("\\", "\\\\").replace('"', '\\"') + '"' for x in xs) + ">>"
    defs = "MCValToks == %s\nMCSrcToks == %s\n" % (seq(valtoks), seq(srctoks))
    cfg = ('INIT Init\nNEXT Next\nINVARIANTS Bounded NoSelfExpansion Emit\nCONSTANTS\n Names = {"a", "b"%s}\n ValToks <- MCValToks\n'
           ' SrcToks <- MCSrcToks\n MaxVal = %d\n MaxSrc = %d\n Bound = 60\n' % ((', "c", "in"' if tables else ""), maxval, maxsrc))
    if tables:
        defs += "MCTables == %s\n" % tables
        cfg += " Tables <- MCTables\n"
    if sources:
        defs += "MCSources == {%s}\n" % ", ".join(seq(x.split(" ")) for x in sources)
        cfg += " Sources <- MCSources\n"
    res = R.tlc("Alias", cfg, defs=defs, name=name, timeout=3000)
    if res.violated:
        raise vlib.MachineryError("Alias.tla: %s violated in the model (substitution does not terminate / self-expansion)" % res.violated)
    out = []
    for p in res.prints:
        if p and p[0] == "CASE":
            c = json.loads(p[1])
            if not isinstance(c["vals"], dict):     # the empty table is printed as an empty sequence
                c["vals"] = {}
            out.append(c)
    return out


def check(R, cases, name):
    for i, c in enumerate(cases):
        c["id"] = "%s%d" % (name, i)
    obs, killers = R.drive_isolated("alias", [dict(id=c["id"], vals=c["vals"], src=c["src"], out=c["out"], tab=(i % 3 == 1)) for i, c in enumerate(cases)], timeout=1800)
    for c, rc, err in killers:
        if err.lstrip().startswith("driver:"):
            raise vlib.MachineryError("alias driver failed: " + err[-500:])
        R.violation("alias substitution kills the process: %s" % json.dumps(dict(vals=c["vals"], src=c["src"], stderr=err[-500:]))[:1200],
                    dict(kind="alias", case=c), coords=dict(src=c["src"]))
    recs = [dict(id=o["id"], vals=o["vals"], src=o["src"], out=o["out"], srctext=o["srctext"], outtext=o["outtext"],
                 **{"with": {k: o["with"][k] for k in ("err", "sk", "panic")}, "plain": {k: o["plain"][k] for k in ("err", "sk", "panic")}})
            for o in obs]
    bad = sorted(s + p[1] - 1 for s, p in R.pvalidate("AliasCheck", recs, 20000, name) if p[0] == "MISMATCH")
    for k in bad:
        r = recs[k]
        ex = dict(aliases={n: " ".join(v["val"]) + (" " if v["blank"] else "") for n, v in r["vals"].items()}, source=r["srctext"],
                  expected_text=r["outtext"], with_aliases=dict(err=r["with"]["err"], panic=r["with"]["panic"]),
                  plain=dict(err=r["plain"]["err"]), same_skeleton=r["with"]["sk"] == r["plain"]["sk"])
        # a blank-terminated value `case W in ` directly in front of the first pattern: see F-C17-pattern-after-case-in
        cls = "third-word" if "foo" in r["vals"] else "case-in-blank" if any(v["blank"] and v["val"][:1] == ["case"] and v["val"][-1:] == ["in"] for v in r["vals"].values()) \
            and r["with"]["sk"] != r["plain"]["sk"] and r["with"]["err"]["class"] == "none" else ""
        R.violation("alias substitution differs from textual replacement: %s" % json.dumps(ex, ensure_ascii=False)[:1400],
                    dict(kind="alias", case=dict(vals=r["vals"], src=r["src"], out=r["out"])), coords={"src": r["srctext"], "class": cls})
    return recs


def run(R):
    R.rule = ("cases = (alias table, source): every table over the names {a, b} with values of up to MaxVal tokens (with / without "
              "trailing blank; self-reference, mutual recursion, cycles through blank-terminated values), empty values, three-level chains over {a, b, c}, command substitutions in the source, x every source of up to "
              "MaxSrc tokens over names, plain / quoted / assignment words, reserved words and operators; distinct_nontrivial = "
              "distinct cases in which at least one substitution took place")
    R.assumptions = ["token-level model: sources and values are blank-separated tokens; alias names are plain words",
                     "the machine's result parsed without aliases is the oracle (metamorphic)"]
    if R.tier == "quick":
        jobs = [lambda: gen(R, 2, 2, ["a", "b", "w"], ["a", "b", "w", "'a'", "x=1", ";"], "alias1"),
                lambda: gen(R, 1, 3, ["a", "b", "w"], ["a", "b", "w", "'a'", "x=1", ";"], "alias1b"),
                lambda: gen(R, 1, 3, ["a", "b", ";", "x=1", "if", "!"], ["a", "b", "w", "|", "!", "if", "then", "fi", ";"], "alias2"),
                lambda: gen(R, 2, 3, ["a", "b", "c", "w"], ["a", "c", "w", ";"], "alias3", tables=TABLES3),
                lambda: gen(R, 1, 4, ["a", "b", "w"], ["a", "w", "$(", ")"], "alias4"),
                lambda: gen(R, 3, 9, ["a", "b", "w", "for", "case", "in"], ["a", "b", "w"], "alias5", tables=TABLES5, sources=SOURCES5),
                lambda: gen(R, 1, 4, ["a", "w"], ["a", "b", "w", "<", ";"], "alias6")]      # redirections in the command prefix
        cases = [c for part in R.parallel(jobs) for c in part]
    else:
        cases = gen(R, 2, 3, ["a", "b", "w"], ["a", "b", "w", "'a'", "x=1", ";"], "alias1")
        cases += gen(R, 2, 2, ["a", "b", ";", "if", "!"], ["a", "b", "w", "|", "!", "if", "then", "fi", ";"], "alias2")
        cases += gen(R, 1, 4, ["a", "b", ";", "x=1", "if", "!"], ["a", "b", "w", "|", "!", "if", ";"], "alias2b")
        cases += gen(R, 2, 4, ["a", "b", "c", "w"], ["a", "c", "w", ";"], "alias3", tables=TABLES3)
        cases += gen(R, 1, 5, ["a", "b", "w"], ["a", "b", "w", "$(", ")"], "alias4")
        cases += gen(R, 3, 9, ["a", "b", "w", "for", "case", "in"], ["a", "b", "w"], "alias5", tables=TABLES5, sources=SOURCES5)
        cases += gen(R, 2, 4, ["a", "w"], ["a", "b", "w", "<", ";"], "alias6")
    # probes of the known finding F-C17-third-word (the model says: not in command position, not replaced)
    for src in (["for", "x", "foo"], ["case", "x", "foo"]):
        cases.append(dict(vals={"foo": dict(val=["in", "a", ";", "do", "w", ";", "done"] if src[0] == "for" else ["in", "esac"], blank=False)},
                          src=src, out=src, names=["foo"]))
    recs = check(R, cases, "al")
    R.evaluations = len(recs) * 2
    R.traces = len(recs)
    R.nontrivial = set(r["id"] for r in recs if r["src"] != r["out"])
    for r in [x for x in recs if x["src"] != x["out"]][1000:1003]:
        R.sample(dict(aliases={n: " ".join(v["val"]) + (" " if v["blank"] else "") for n, v in r["vals"].items()},
                      source=r["srctext"], substituted=r["outtext"]))
    R.exhaustive = True


def replay(R, doc):
    check(R, [doc["replay"]["case"]], "replay")
    R.evaluations = 2
