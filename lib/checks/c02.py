"""C02 -- every grammatical program is accepted and its AST mirrors its derivation.

specs/ShellGrammar.tla is the dialect's grammar with skeleton markers;
specs/ShellGen.tla derives programs (all derivations within a deviation budget
by BFS, long random ones by -simulate) together with the expected skeleton;
the real parser.ParseCommands runs on every program; specs/ShellCheck.tla
validates every observation (nil error, skeleton equal to the derivation's,
documented node shapes)."""
import json
import vlib, shellgen

LEVEL = "model_checking"


def validate(R, recs, name):
    bad = []
    shard = 20000
    for s in range(0, len(recs), shard):
        part = recs[s:s + shard]
        path = R.path("obs", "%s-%d.ndjson" % (name, s))
        vlib.write_ndjson(path, part)
        res = R.tlc("ShellCheck", "INIT Init\nNEXT Next\nINVARIANT Chk\n", env={"VERIF_OBS": path},
                    name="%s-check%d" % (name, s), workers=1, timeout=3000)
        if res.distinct != len(part):
            raise vlib.MachineryError("ShellCheck visited %d of %d records" % (res.distinct, len(part)))
        bad += [s + p[1] - 1 for p in res.prints if p and p[0] == "MISMATCH"]
    return sorted(bad)


def check_programs(R, cases, name):
    for i, c in enumerate(cases):
        c["id"] = "%s-%d" % (name, i)
    obs, _ = R.drive("parse", [dict(id=c["id"], src=c["src"]) for c in cases], shards=vlib.NCPU)
    byid = {o["id"]: o for o in obs}
    if len(byid) != len(cases):
        raise vlib.MachineryError("driver returned %d of %d" % (len(byid), len(cases)))
    recs = [dict(id=c["id"], src=c["src"], sk=c["sk"], obs=byid[c["id"]]) for c in cases]
    bad = validate(R, recs, name)
    for k in bad:
        r = recs[k]
        o = r["obs"]
        what = dict(src=r["src"], err=o["err"], panic=o["panic"])
        if o["err"]["class"] == "none" and o["sk"] != r["sk"]:
            what["expected_sk"], what["observed_sk"] = r["sk"], o["sk"]
        R.violation("parser disagrees with the derivation: %s" % json.dumps(what, ensure_ascii=False)[:1500],
                    dict(kind="parse", case=dict(id=r["id"], src=r["src"], sk=r["sk"])), coords=dict(src=r["src"]))
    return recs


def run(R):
    R.rule = ("cases = complete commands derived from ShellGrammar.tla with their expected skeleton: every derivation that "
              "differs from the minimal program in at most MaxDev productions (exhaustive BFS: every production, every pair of "
              "productions in every relative position) plus seeded random long derivations; distinct_nontrivial = distinct sources "
              "with at least two non-minimal productions")
    R.assumptions = ["ShellGrammar.tla's reading of XCU 2.10 and of the AST node shapes documented in ast.go / parser.go.y",
                     "harness/proj/skel.go projects the AST onto the skeleton without judging it",
                     "(( )) directly inside ( ) or $( ) is not generated (known finding F-C02-arith-in-paren, probed separately)"]
    if R.tier == "quick":
        cases = shellgen.bfs(R, 2) + shellgen.focus(R, "wprog", 2, 4) + shellgen.focus(R, "prprog", 1)
        sim = shellgen.simulate(R, 400)
    else:
        cases = shellgen.bfs(R, 3) + shellgen.focus(R, "wprog", 3, 4) + shellgen.focus(R, "prprog", 1)
        sim = shellgen.simulate(R, 6000)
    nb = len(cases)
    allc = shellgen.dedup(cases + sim)
    check_programs(R, allc, "c02")
    shellgen.probes(R)
    prods, pairs = shellgen.coverage(allc)
    R.evaluations = len(allc)
    R.traces = len(allc)
    R.nontrivial = set(c["src"] for c in allc if c["dev"] >= 2)
    for c in allc[nb // 2: nb // 2 + 2] + sim[:2]:
        R.sample(dict(src=c["src"], skeleton_len=len(c["sk"]), dev=c["dev"]))
    R.notes.update(bfs_programs=nb, simulated_programs=len(sim), productions_covered=len(prods),
                   production_pairs_covered=len(pairs))
    R.exhaustive = False


def replay(R, doc):
    c = doc["replay"]["case"]
    check_programs(R, [dict(src=c["src"], sk=c["sk"], dev=0, drv=[])], "replay")
    R.evaluations = 1
