"""C12 -- pattern.Match implements shell pattern notation in all four modes.

specs/Pattern.tla is the reference (parser of the notation + backtracking
matcher + the four removal modes).  TLC enumerates every pattern up to MaxP
symbols (PatternGen, BFS) together with the expected results for every
subject up to MaxS symbols; the driver runs pattern.Match on every
(pattern, subject, mode); TLC validates every record (PatternCheck)."""
import json, os
import vlib

LEVEL = "model_checking"

PAT_ALPHA = ["a", "b", "*", "?", "[", "]", "!", "^", "-", "\\", ".", "NL"]
SUBJ_ALPHA = ["a", "b", "-", "]", "[", ".", "NL"]
# second family: regular-expression metacharacters and multi-byte characters
PAT_ALPHA2 = ["a", "*", "?", "\\", "+", "(", ")", "|", "{", "}", "$", "^", ".", "U1", "U2", "UFFFD"]
SUBJ_ALPHA2 = ["a", "+", "(", ")", "|", "{", "}", "$", "^", ".", "\\", "U1", "U2", "UFFFD", "NL"]


# third family: deep bracket expressions
PAT_ALPHA3 = ["a", "*", "[", "]", "\\", ".", "-", "^"]
SUBJ_ALPHA3 = ["a", "*", ".", "[", "\\", "-"]


def tla_seq(xs):
    return "<<" + ", ".join('"' + x.replace("\\", "\\\\") + '"' for x in xs) + ">>"


# fourth family: every way a bracket expression can open ([ [! [^ []  [!] [^] [\\ ...) continued over wildcards and closers
PAT_ALPHA4 = ["a", "?", "*", "[", "]", "!", "^", "-"]
SUBJ_ALPHA4 = ["a", "]", "?", "!", "^", "-"]
ROOTS4 = [["["], ["[", "!"], ["[", "^"], ["[", "]"], ["[", "!", "]"], ["[", "^", "]"], ["[", "\\"], ["[", "!", "\\"], ["[", "a", "-"], ["[", "!", "-"],
          ["[", "]", "-"], ["[", "a", "\\", "-"], ["[", "\\", "-"], ["[", "[", ":"], ["[", "!", "!"], ["[", "^", "^"], ["[", "!", "^"]]


# fifth family: character classes inside bracket expressions (composite symbols, see Pattern.tla)
PAT_ALPHA5 = ["a", "*", "?", "[", "]", "[:alpha:]", "[:digit:]", "[:punct:]"]
SUBJ_ALPHA5 = ["a", "1", "?", ".", "]"]
ROOTS5 = [["["], ["[", "!"]]
# sixth family: braces and digits (regular-expression repetition syntax must stay literal)
PAT_ALPHA6 = ["a", "{", "}", "1", ",", "*", "?"]
SUBJ_ALPHA6 = ["a", "{", "}", "1", ","]


def gen(R, pat_alpha, subj_alpha, maxp, maxs, name, pairs=False, roots=None, simulate=None):
    defs = "MCPatAlpha == %s\nMCSubjAlpha == %s\n" % (tla_seq(pat_alpha), tla_seq(subj_alpha))
    cfg = ("INIT Init\nNEXT Next\nINVARIANT Inv\nCONSTANTS\n PatAlpha <- MCPatAlpha\n"
           " SubjAlpha <- MCSubjAlpha\n MaxP = %d\n MaxS = %d\n WithPairs = %s\n" % (maxp, maxs, "TRUE" if pairs else "FALSE"))
    if roots:
        defs += "MCRoots == {%s}\n" % ", ".join(tla_seq(r) for r in roots)
        cfg += " Roots <- MCRoots\n"
    if simulate:
        res = R.tlc("PatternGen", cfg, defs=defs, name=name, timeout=3000, simulate="num=%d" % simulate, depth=maxp + 1, workers=8)
    else:
        res = R.tlc("PatternGen", cfg, defs=defs, name=name, timeout=3000)
    subj, cases = None, []
    for p in res.prints:
        if p[0] == "SUBJ":
            subj = json.loads(p[1])
        elif p[0] == "CASE":
            cases.append(json.loads(p[1]))
    if subj is None or not cases:
        raise vlib.MachineryError("PatternGen produced no cases")
    expect_n = sum(len(pat_alpha) ** i for i in range(maxp + 1)) * (3 if pairs else 1)
    if roots:
        import itertools
        expect_n = len(set(tuple(r) + t for r in roots for i in range(maxp - len(r) + 1) for t in itertools.product(pat_alpha, repeat=i)))
    if simulate:
        seen, uniq = set(), []
        for c in cases:
            if len(c["p"]) >= 4 and tuple(c["p"]) not in seen:      # the short ones are enumerated exhaustively elsewhere
                seen.add(tuple(c["p"]))
                uniq.append(c)
        return subj, uniq
    if len(cases) != expect_n:
        raise vlib.MachineryError("PatternGen: %d cases, expected %d" % (len(cases), expect_n))
    return subj, cases


def validate(R, recs, name):
    path = R.path("obs", name + ".ndjson")
    vlib.write_ndjson(path, recs)
    cfg = "INIT Init\nNEXT Next\nINVARIANT Chk\n"
    res = R.tlc("PatternCheck", cfg, env={"VERIF_OBS": path}, name=name + "-check", timeout=3000, workers=1)
    if res.distinct != len(recs):
        raise vlib.MachineryError("PatternCheck visited %d of %d records" % (res.distinct, len(recs)))
    return sorted(p[1] for p in res.prints if p and p[0] == "MISMATCH")


def explain(rec, subj):
    """first failing (mode, subject) of a mismatching record"""
    for m in ("ps", "pl", "ss", "sl"):
        for i, (e, o) in enumerate(zip(rec["exp"][m], rec["obs"][m])):
            st = rec["st"]
            ok = (o == e) if st == "ok" else (o == -2) if st == "mal" else (o in (-2, e)) if st == "either" else (o not in (-3, -4))
            if not ok:
                return dict(pattern=rec["text"], symbols=rec["p"], status=st, mode=m, subject=subj[i],
                            expected=e, observed=o, errs=rec.get("errs"))
    return dict(pattern=rec["text"], status=rec["st"])


def family(R, pat_alpha, subj_alpha, maxp, maxs, name, pairs=False, roots=None, simulate=None):
    subj, cases = gen(R, pat_alpha, subj_alpha, maxp, maxs, name, pairs, roots, simulate)
    obs, _ = R.drive("match", cases, header=dict(subjects=subj), shards=vlib.NCPU)
    if len(obs) != len(cases):
        raise vlib.MachineryError("driver returned %d of %d records" % (len(obs), len(cases)))
    bad = validate(R, obs, name)
    R.evaluations += len(cases) * len(subj) * 4
    R.traces += len(obs)
    for rec in obs:
        if any(x in rec["p"] for x in ("*", "?", "[", "\\")):
            R.nontrivial.add(rec["text"])
    for k in bad:
        rec = obs[k - 1]
        ex = explain(rec, subj)
        R.violation("pattern.Match disagrees with Pattern.tla: %s" % json.dumps(ex, ensure_ascii=False),
                    dict(kind="match", header=dict(subjects=subj),
                         case={k2: rec[k2] for k2 in ("p", "pats", "st", "exp") if k2 in rec}, explain=ex),
                    coords=dict(status=rec["st"], pattern=rec["text"]))
    for rec in obs[len(obs) // 2: len(obs) // 2 + 2]:
        R.sample(dict(pattern=rec["text"], status=rec["st"], subjects=len(subj),
                      expected_prefix_smallest=rec["exp"]["ps"][:12], observed_prefix_smallest=rec["obs"]["ps"][:12]))
    return len(cases), len(subj)


def run(R):
    R.rule = ("cases = (pattern, subject, mode) triples; every pattern up to MaxP symbols over the C12 alphabet "
              "(TLC BFS, one state per pattern) x every subject up to MaxS symbols x 4 modes; a second family over "
              "regular-expression metacharacters and multi-byte characters.  distinct_nontrivial = distinct patterns "
              "containing a wildcard, bracket or escape")
    R.assumptions = ["the driver maps abstract symbols to characters (NL, U1=e-acute, U2=hiragana a)",
                     "status 'either' (unterminated '[' / trailing backslash) accepts an error or the literal reading; "
                     "'unspec' ([. [= [: inside a bracket) only demands no panic"]
    if R.tier == "quick":
        plan = [(PAT_ALPHA, SUBJ_ALPHA, 3, 3, "c12a", False), (PAT_ALPHA2, SUBJ_ALPHA2, 2, 2, "c12b", False),
                (PAT_ALPHA3, SUBJ_ALPHA3, 4, 2, "c12c", False), (PAT_ALPHA, SUBJ_ALPHA, 2, 3, "c12p", True)]
    else:
        plan = [(PAT_ALPHA, SUBJ_ALPHA, 4, 3, "c12a", False), (PAT_ALPHA, SUBJ_ALPHA, 3, 4, "c12a2", False),
                (PAT_ALPHA2, SUBJ_ALPHA2, 3, 3, "c12b", False), (PAT_ALPHA3, SUBJ_ALPHA3, 5, 2, "c12c", False),
                (PAT_ALPHA, SUBJ_ALPHA, 3, 3, "c12p", True)]
    R.exhaustive = True
    sizes = []
    n, s = family(R, PAT_ALPHA4, SUBJ_ALPHA4, 5 if R.tier == "quick" else 6, 2, "c12d", roots=ROOTS4)
    sizes.append(dict(family="c12d (bracket openings)", patterns=n, subjects=s, max_pattern_len=5 if R.tier == "quick" else 6, max_subject_len=2))
    n, s = family(R, PAT_ALPHA4, SUBJ_ALPHA4, 7, 2, "c12g", roots=[["[", "a", "\\", "-", "a"], ["[", "!", "a", "\\", "-", "a"], ["[", "\\", "!", "\\", "-", "\\", "]"]])
    sizes.append(dict(family="c12g (escaped - ! ] inside brackets)", patterns=n, subjects=s, max_pattern_len=7, max_subject_len=2))
    n, s = family(R, PAT_ALPHA5, SUBJ_ALPHA5, 5 if R.tier == "quick" else 6, 2, "c12e", roots=ROOTS5)
    sizes.append(dict(family="c12e (character classes)", patterns=n, subjects=s, max_pattern_len=5 if R.tier == "quick" else 6, max_subject_len=2))
    n, s = family(R, PAT_ALPHA + ["[:alpha:]", "U1"], SUBJ_ALPHA + ["U1"], 8, 2, "c12r", simulate=4 if R.tier == "quick" else 150)
    sizes.append(dict(family="c12r (seeded random patterns of 4-8 symbols)", patterns=n, subjects=s, max_pattern_len=8, max_subject_len=2))
    n, s = family(R, PAT_ALPHA6, SUBJ_ALPHA6, 4 if R.tier == "quick" else 5, 3, "c12f")
    sizes.append(dict(family="c12f (braces)", patterns=n, subjects=s, max_pattern_len=4 if R.tier == "quick" else 5, max_subject_len=3))
    for pa, sa, mp, ms, name, pairs in plan:
        n, s = family(R, pa, sa, mp, ms, name, pairs)
        sizes.append(dict(family=name, patterns=n, subjects=s, max_pattern_len=mp, max_subject_len=ms))
    R.notes["families"] = sizes


def replay(R, doc):
    rp = doc["replay"]
    obs, _ = R.drive("match", [rp["header"], rp["case"]])
    bad = validate(R, obs, "replay")
    R.evaluations += 1
    subj = rp["header"]["subjects"]
    for k in bad:
        ex = explain(obs[k - 1], subj)
        R.violation("replay: %s" % json.dumps(ex, ensure_ascii=False), rp, coords=dict(status=obs[k - 1]["st"], pattern=obs[k - 1]["text"]))
