"""C15 -- quoted text survives parsing and expansion unchanged.

specs/Quote.tla defines the four literal spellings of a string (single quotes,
double quotes with escapes, backslash before every character, mixed) and the
property predicate.  TLC enumerates every string up to MaxLen symbols over the
shell's special characters with its four spellings; the driver parses each
spelling with the real parser and expands the word with the real ExecEnv under
every expansion mode in an adversarial environment (IFS holding letters and
pattern characters, HOME, positional parameters, a directory with files named
like the strings); QuoteCheck validates: exactly one field equal to the string
in every mode, and in Pattern mode a pattern that (by Pattern.tla's matcher)
matches the string and none of its perturbations."""
import json
import vlib

LEVEL = "model_checking"

ALPHA = ["a", "SP", "NL", "TAB", "$", "`", "DQ", "'", "\\", "*", "?", "[", "]", "~", "#", ";", "&", "|", "<", "(", "{", "=", ":", "!", "-", "/", "}", "1", "CR", "U1"]


def tla_seq(xs):
    return "<<" + ", ".join('"' + x.replace("\\", "\\\\") + '"' for x in xs) + ">>"


def run(R):
    R.rule = ("cases = (string, spelling, mode): every string up to MaxLen symbols over 30 characters (all shell specials, blank, tab, "
              "newline, a multi-byte character) x {single, double, backslash, mixed} x {default, Arith, Assign, Literal, Quote, "
              "Pattern}; exhaustive, plus seeded random strings of 4-8 symbols; distinct_nontrivial = distinct strings containing at least one character that is special to the shell")
    R.assumptions = ["the environment is fixed and adversarial (IFS 'a :<tab><nl>*$', HOME, 3 positional parameters, files aa b * ? [ ~ ..., a directory a holding a and *)",
                     "Pattern mode is judged with Pattern.tla's parser and matcher on the returned pattern"]
    maxlen = 3 if R.tier == "quick" else 4
    defs = "MCAlpha == %s\n" % tla_seq(ALPHA)
    cfg = "INIT Init\nNEXT Next\nINVARIANT Emit\nCONSTANTS\n Alpha <- MCAlpha\n MaxLen = %d\n" % maxlen
    res = R.tlc("Quote", cfg, defs=defs, name="QuoteGen", timeout=3000)
    cases = [json.loads(p[1]) for p in res.prints if p and p[0] == "CASE"]
    want = sum(len(ALPHA) ** i for i in range(maxlen + 1))
    if len(cases) != want:
        raise vlib.MachineryError("Quote: %d cases, expected %d" % (len(cases), want))
    # seeded random longer strings (TLC -simulate over the same machine)
    cfg2 = "INIT Init\nNEXT Next\nINVARIANT Emit\nCONSTANTS\n Alpha <- MCAlpha\n MaxLen = 8\n"
    sim = R.tlc("Quote", cfg2, defs=defs, name="QuoteSim", simulate="num=%d" % (6 if R.tier == "quick" else 120), depth=9, workers=8, timeout=3000)
    seen = set(tuple(c["s"]) for c in cases)
    nsim = 0
    for p in sim.prints:
        if p and p[0] == "CASE":
            c = json.loads(p[1])
            if len(c["s"]) > maxlen and tuple(c["s"]) not in seen:
                seen.add(tuple(c["s"]))
                cases.append(c)
                nsim += 1
    R.notes["random_longer_strings"] = nsim
    obs, _ = R.drive("quote", cases, shards=vlib.NCPU)
    if len(obs) != len(cases):
        raise vlib.MachineryError("driver returned %d of %d" % (len(obs), len(cases)))
    bad = []
    shard = 10000
    for s in range(0, len(obs), shard):
        part = obs[s:s + shard]
        path = R.path("obs", "quote-%d.ndjson" % s)
        vlib.write_ndjson(path, part)
        r2 = R.tlc("QuoteCheck", "INIT Init\nNEXT Next\nINVARIANT Chk\n", env={"VERIF_OBS": path}, workers=1, name="QuoteCheck%d" % s, timeout=3000)
        if r2.distinct != len(part):
            raise vlib.MachineryError("QuoteCheck visited %d of %d" % (r2.distinct, len(part)))
        bad += [s + p[1] - 1 for p in r2.prints if p and p[0] == "MISMATCH"]
    for k in bad:
        o = obs[k]
        wrong = {}
        for st, per in o["obs"].items():
            for m, f in per.items():
                if m == "realmatch":
                    if f != [["self"]]:
                        wrong["%s/realmatch" % st] = dict(spelling=o["text"][st], pattern_Match_hits=f)
                    continue
                if m != "pattern" and f != [o["s"]]:
                    wrong["%s/%s" % (st, m)] = dict(spelling=o["text"][st], fields=f)
                if m == "pattern":
                    wrong.setdefault("%s/pattern" % st, dict(spelling=o["text"][st], pattern=f))
        ex = dict(string=o["s"], panic=o["panic"], wrong=dict(list(wrong.items())[:4]))
        R.violation("quoted text not preserved: %s" % json.dumps(ex, ensure_ascii=False)[:1500],
                    dict(kind="quote", case={k2: cases[k][k2] for k2 in ("s", "sq", "dq", "bs", "mix", "pert")}), coords=dict(s="".join(o["s"])))
    R.exhaustive = True
    R.evaluations = len(obs) * 24
    R.traces = len(obs)
    R.nontrivial = set("".join(o["s"]) for o in obs if any(x != "a" for x in o["s"]))
    for o in obs[len(obs) // 2: len(obs) // 2 + 2]:
        R.sample(dict(string=o["s"], spellings=o["text"], pattern_mode=o["obs"]["sq"]["pattern"]))


def replay(R, doc):
    c = doc["replay"]["case"]
    obs, _ = R.drive("quote", [c])
    path = R.path("obs", "quote.ndjson")
    vlib.write_ndjson(path, obs)
    r2 = R.tlc("QuoteCheck", "INIT Init\nNEXT Next\nINVARIANT Chk\n", env={"VERIF_OBS": path}, workers=1, name="QuoteCheck")
    if any(p and p[0] == "MISMATCH" for p in r2.prints):
        R.violation("replay: %s" % json.dumps(obs[0])[:600], doc["replay"], coords=dict(s="".join(c["s"])))
    R.evaluations = 24
