"""C09 -- layout is inert: blanks, comments and line continuations do not change meaning.

ShellGen.tla derives programs as token sequences whose tokens carry the layout
contract of the grammar (gap: blanks allowed / must touch, lb: a linebreak may
follow, semi: this ';' may be a newline); ShellGen!Variants applies every single
transformation at every position the contract allows.  The real parser runs on
the base program and on every variant; LayoutCheck.tla validates that each
variant is Norm-equal to the base parse and returns exactly the inserted
comments."""
import json
import vlib, shellgen

LEVEL = "model_checking"


def gen(R, maxdev, sim):
    cfg = "INIT Init\nNEXT Next\nINVARIANT EmitLayout\nCONSTANTS MaxDev = %d\n MaxDepth = 3\n StartSym = \"prog\"\n" % maxdev
    res = R.tlc("ShellGen", cfg, name="ShellGen-layout-dev%d" % maxdev, timeout=3000)
    cases = shellgen._cases(res)
    if sim:
        cfg = "INIT Init\nNEXT Next\nINVARIANT EmitLayout\nCONSTANTS MaxDev = 8\n MaxDepth = 4\n StartSym = \"prog\"\n"
        res = R.tlc("ShellGen", cfg, simulate="num=%d" % sim, depth=800, workers=8, name="ShellGen-layout-sim", timeout=3000)
        cases += shellgen._cases(res)
    # here-documents at every redirection / newline site (two pool entries)
    cfg = "INIT Init\nNEXT Next\nINVARIANT EmitLayout\nCONSTANTS MaxDev = 1\n MaxDepth = 3\n StartSym = \"hdlay\"\n"
    res = R.tlc("ShellGen", cfg, name="ShellGen-layout-hd", timeout=3000)
    cases += shellgen._cases(res)
    # newlines outside and inside command substitutions
    cfg = "INIT Init\nNEXT Next\nINVARIANT EmitLayout\nCONSTANTS MaxDev = 1\n MaxDepth = 3\n StartSym = \"nlprog\"\n"
    res = R.tlc("ShellGen", cfg, name="ShellGen-layout-nl", timeout=3000)
    cases += shellgen._cases(res)
    return shellgen.dedup(cases)


def observe(R, cases):
    inp = []
    # a second command line follows every program: a transformation must not make the call swallow it
    more = "zz\n"
    for i, c in enumerate(cases):
        inp.append(dict(id="b%d" % i, src=c["src"] + more))
        for j, v in enumerate(c["variants"]):
            inp.append(dict(id="v%d.%d" % (i, j), src=v["src"] + (more if v["kind"] != "comment-eof" else "")))
    obs, _ = R.drive("parse", inp, shards=vlib.NCPU)
    byid = {o["id"]: o for o in obs}
    if len(byid) != len(inp):
        raise vlib.MachineryError("driver returned %d of %d" % (len(byid), len(inp)))
    recs = []
    for i, c in enumerate(cases):
        recs.append(dict(src=c["src"], base=byid["b%d" % i],
                         variants=[dict(kind=v["kind"], at=v["at"], src=v["src"], comments=v["comments"], obs=byid["v%d.%d" % (i, j)])
                                   for j, v in enumerate(c["variants"])]))
    return recs, len(inp)


def validate(R, recs, name):
    bad = []
    shard = 3000
    for s in range(0, len(recs), shard):
        part = recs[s:s + shard]
        path = R.path("obs", "%s-%d.ndjson" % (name, s))
        vlib.write_ndjson(path, part)
        res = R.tlc("LayoutCheck", "INIT Init\nNEXT Next\nINVARIANT Chk\n", env={"VERIF_OBS": path},
                    name="%s-check%d" % (name, s), workers=1, timeout=3000)
        if res.distinct != len(part):
            raise vlib.MachineryError("LayoutCheck visited %d of %d records" % (res.distinct, len(part)))
        bad += [(s + p[1] - 1, p[2]) for p in res.prints if p and p[0] == "MISMATCH"]
    return sorted(bad)


def report(R, recs, bad):
    for k, i in bad:
        r = recs[k]
        if i == 0:
            ex = dict(src=r["src"], base_err=r["base"]["err"], base_comments=r["base"]["comments"])
            v = None
        else:
            v = r["variants"][i - 1]
            ex = dict(base=r["src"], kind=v["kind"], at=v["at"], variant=v["src"], err=v["obs"]["err"],
                      expected_comments=v["comments"], observed_comments=[c["text"] for c in v["obs"]["comments"]],
                      same_skeleton=(v["obs"]["sk"] == r["base"]["sk"]))
        R.violation("layout changes the parse: %s" % json.dumps(ex, ensure_ascii=False)[:1500],
                    dict(kind="layout", case=dict(src=r["src"], variants=[dict(kind=v["kind"], at=v["at"], src=v["src"], comments=v["comments"])] if v else [])),
                    coords=dict(kind=v["kind"] if v else "base", base=r["src"]))


def run(R):
    R.rule = ("cases = (program, transformation, position): ShellGen programs (every derivation with at most MaxDev non-minimal "
              "productions, plus seeded random long ones) x every single layout transformation {extra blanks, tab, blank removed, "
              "comment before newline, comment at end of input, backslash-newline, newline for ';', blank line} at every token "
              "boundary where the grammar's layout contract allows it; distinct_nontrivial = distinct (program, kind, position) "
              "with a transformation other than extra blanks/tab")
    R.assumptions = ["the layout contract (gap/lb/semi attributes of terminals in ShellGrammar.tla) is the reading of XCU 2.10's "
                     "linebreak / separator / newline_list positions", "layout inside (( )) and inside words is not transformed",
                     "the base parse is the oracle (metamorphic)"]
    if R.tier == "quick":
        cases = gen(R, 2, 12)
    else:
        cases = gen(R, 3, 100) if False else gen(R, 2, 400)
    recs, n = observe(R, cases)
    bad = validate(R, recs, "c09")
    report(R, recs, bad)
    shellgen.probes(R)
    R.evaluations = n
    R.traces = n
    nt = set()
    kinds = {}
    for r in recs:
        for v in r["variants"]:
            kinds[v["kind"]] = kinds.get(v["kind"], 0) + 1
            if v["kind"] not in ("blank", "tab"):
                nt.add((r["src"], v["kind"], v["at"]))
    R.nontrivial = nt
    for r in recs[len(recs) // 2: len(recs) // 2 + 2]:
        R.sample(dict(base=r["src"], variants=[dict(kind=v["kind"], src=v["src"]) for v in r["variants"][:6]]))
    R.notes.update(programs=len(recs), variants_by_kind=kinds)


def replay(R, doc):
    c = doc["replay"]["case"]
    recs, n = observe(R, [c])
    bad = validate(R, recs, "replay")
    report(R, recs, bad)
    R.evaluations = n
