"""C05 -- print then parse gives back the same program, under every printer style.

Programs come from ShellGen (same generator as C02).  The driver parses each
program, prints it under each of the 256 configurations enumerated by
PrintRT.tla, re-parses the printed text and projects it; identical skeletons
are only counted, different ones are recorded in full and judged by
PrintRT!RoundTrip (Norm-equality, nil error, everything consumed)."""
import json
import vlib, shellgen, printlib

LEVEL = "model_checking"


def focus(R, sym="prprog"):
    """focus of the grammar: prprog = compound commands with every combination of list terminators; hdprog = here-documents at
    every redirection site"""
    cfg = "INIT Init\nNEXT Next\nINVARIANT EmitCase\nCONSTANTS MaxDev = 1\n MaxDepth = 3\n StartSym = \"%s\"\n" % sym
    res = R.tlc("ShellGen", cfg, name="ShellGen-" + sym, timeout=3000)
    return shellgen._cases(res)


def programs(R):
    """primary programs (all 256 configurations) and additional ones: the multi-line forms (every optional newline present) and
    a sample of the here-document focus; the quick tier prints the additional ones under a rotating sample of 32 configurations"""
    import random
    rnd = random.Random(R.seed)
    base = shellgen.bfs(R, 2)
    foc = focus(R)
    sim = shellgen.simulate(R, 60 if R.tier == "quick" else 800)
    prim = shellgen.dedup(base + foc + sim + shellgen.deep(12) + shellgen.focus(R, "wprog", 2, 4))
    hd = focus(R, "hdprog")
    if R.tier == "quick":
        # a sample of every alternative of the focus (the first derivation step names it)
        groups = {}
        for c in hd:
            groups.setdefault(c["drv"][0], []).append(c)
        hd = [c for g in sorted(groups) for c in rnd.sample(groups[g], min(len(groups[g]), 22))]
    extra = []
    for c in [c for c in base if c["dev"] <= 1] + foc + hd + sim:
        if c["ml"] != c["src"]:
            extra.append(dict(c, src=c["ml"]))
    extra = shellgen.dedup(hd + extra)
    seen = set(c["src"] for c in prim)
    extra = [dict(c) for c in extra if c["src"] not in seen]
    if R.tier == "quick":
        for i, c in enumerate(extra):
            c["only"] = sorted((i * 37 + j * 8 + (i // 8) % 8) % 256 for j in range(32))
    return prim + extra


def report(R, obs, bad, which):
    for k in bad:
        o = obs[k]
        ex = dict(src=o["src"], parse_err=o["err"], ncfg=o["ncfg"])
        if o.get("rt"):
            d = o["rt"][0]
            ex.update(cfg=d["cfg"], printed=d["out"], reparse_err=d["err"], rem=d["rem"],
                      n_configs_differing=len(o["rt"]))
        for key in ("perr", "idem_bad", "det_bad", "pure_bad", "wf_bad"):
            if o.get(key):
                ex[key] = o[key][:2]
        R.violation("%s: %s" % (which, json.dumps(ex, ensure_ascii=False)[:1800]),
                    dict(kind="print", case=dict(id=o["id"], src=o["src"], faults=True)), coords=dict(src=o["src"]))


def run(R):
    R.rule = ("cases = (program, configuration): ShellGen programs (all derivations with at most 2 non-minimal productions, the printer "
              "focus, seeded random long ones) x the complete product of 256 printer configurations; plus their multi-line forms and "
              "the here-document focus (quick tier: 32 configurations each, rotating; thorough: all 256); distinct_nontrivial = distinct "
              "programs containing a compound command, a here-document or a multi-line construct")
    R.assumptions = ["programs are first parsed by the real parser; the skeleton of that parse is the reference (independent of C02)",
                     "byte identity of skeletons is decided by the driver; differing ones are judged by PrintRT.tla (Norm)"]
    cfgs = printlib.configs(R)
    cases = programs(R)
    for i, c in enumerate(cases):
        c["id"] = "p%d" % i
    obs = printlib.observe(R, cases, cfgs)
    bad = printlib.validate(R, "C05", obs, "c05")
    report(R, obs, bad, "round trip fails")
    R.evaluations = sum(o["ncfg"] for o in obs)
    R.notes["additional_programs"] = sum(1 for c in cases if "only" in c) if R.tier == "quick" else 0
    R.traces = len(obs)
    R.nontrivial = set(o["src"] for o in obs if any(x in o["sk"] for x in ("if[", "for[", "case[", "while[", "until[", "grp[", "sub[", "fn[", "body[")))
    for o in obs[len(obs) // 2: len(obs) // 2 + 3]:
        R.sample(dict(src=o["src"], printed_under_one_config=o["sample"], configs=o["ncfg"], identical_skeletons=o["nsame"],
                      judged_by_norm=len(o["rt"])))
    R.notes.update(programs=len(obs), configurations=256,
                   pairs_judged_by_norm=sum(len(o["rt"]) for o in obs))


def replay(R, doc):
    cfgs = printlib.configs(R)
    obs = printlib.observe(R, [doc["replay"]["case"]], cfgs)
    bad = printlib.validate(R, "C05", obs, "replay")
    report(R, obs, bad, "replay")
    R.evaluations = 256
