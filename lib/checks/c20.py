"""C20 -- the variable store is a map with read-only specials; only assignments change it.

specs/Store.tla is the model (a map plus synthesised special / positional
parameters, the assigning expansions and arithmetic operators, failing
operations leave it unchanged).  StoreGen enumerates every history of Depth
operations over the name universe (ordinary names incl. names differing in
case, specials, positional and multi-digit positional parameters) and random
long histories, with NoUnset off and on, and checks the model-level
invariants.  The driver replays every history into a real ExecEnv; StoreCheck
re-runs the model along the recorded operations and compares result, the Get
of every name, the Walk set, and intactness of Args/Opts/Aliases/AST after
every step."""
import json
import vlib

LEVEL = "model_checking"


def gen(R, depth, nounset, simulate=None, name="store"):
    cfg = ("INIT Init\nNEXT Next\nINVARIANTS OnlyOrdinary SpecialsFixed Emit\nPROPERTY FailKeeps\nCONSTANTS Depth = %d\n NoUnsetOpt = %s\n"
           % (depth, "TRUE" if nounset else "FALSE"))
    if simulate:
        res = R.tlc("StoreGen", cfg, simulate="num=%d" % simulate, depth=depth + 1, workers=8, name=name, timeout=3000)
    else:
        res = R.tlc("StoreGen", cfg, name=name, timeout=3000)
    if res.violated:
        raise vlib.MachineryError("Store.tla violates its own invariants: %s" % res.violated)
    return [json.loads(p[1]) for p in res.prints if p and p[0] == "CASE"]


def check(R, cases, name):
    inp = [dict(id="%s%d" % (name, i), nounset=c["nounset"], ops=[dict(op=h["op"], n=h["n"], v=h["v"]) for h in c["hist"]])
           for i, c in enumerate(cases)]
    obs, _ = R.drive("store", inp, shards=vlib.NCPU)
    if len(obs) != len(inp):
        raise vlib.MachineryError("driver returned %d of %d" % (len(obs), len(inp)))
    bad = []
    shard = 10000

    def one(s):
        part = obs[s:s + shard]
        path = R.path("obs", "%s-%d.ndjson" % (name, s))
        vlib.write_ndjson(path, part)
        res = R.tlc("StoreCheck", "INIT Init\nNEXT Next\nINVARIANT Chk\n", env={"VERIF_OBS": path}, workers=1, name="%s-check%d" % (name, s), timeout=3000)
        if res.distinct != len(part):
            raise vlib.MachineryError("StoreCheck visited %d of %d" % (res.distinct, len(part)))
        return [(s + p[1] - 1, p[2]) for p in res.prints if p and p[0] == "MISMATCH"]

    import concurrent.futures
    with concurrent.futures.ThreadPoolExecutor(max_workers=8) as ex:      # the shards are validated side by side (one TLC worker each)
        for b in ex.map(one, range(0, len(obs), shard)):
            bad += b
    exp = {i["id"]: c for i, c in zip(inp, cases)}
    for k, step in bad:
        o = obs[k]
        st = o["steps"][step - 1]
        model = exp[o["id"]]["hist"][step - 1]
        ex = dict(nounset=o["nounset"], history=[(s["op"], s["n"], s["v"]) for s in o["steps"][:step]],
                  observed=dict(res=st["obs"]["res"], walk=st["obs"]["walk"], intact=st["obs"]["intact"], panic=st["obs"]["panic"],
                                snap={n: v for n, v in st["obs"]["snap"].items() if v != model["snap"].get(n)}),
                  model=dict(res=model["res"], snap={n: v for n, v in model["snap"].items() if v != st["obs"]["snap"].get(n)}))
        R.violation("store history diverges from Store.tla: %s" % json.dumps(ex, ensure_ascii=False)[:1500],
                    dict(kind="store", case=dict(nounset=o["nounset"], hist=exp[o["id"]]["hist"][:step])), coords=dict(op=st["op"], n=st["n"]))
    return obs


def run(R):
    R.rule = ("cases = operation histories over 15 names (4 ordinary incl. x/X, 8 special, 3 positional incl. 10): every history of "
              "Depth operations from an alphabet of ~100 operations (Set, Unset, Get, $n, ${n:=w}, ${n=w}, ${n:?w}, ${n?w}, arithmetic =, "
              "+=, ++, --, faulting assignments) with NoUnset off and on, plus seeded random histories of 12-16 operations (TLC simulation; the last operation ranges over the whole alphabet); "
              "distinct_nontrivial = distinct histories in which an expansion or evaluation changed the store or failed")
    R.assumptions = ["the store starts empty (the driver unsets the imported environment)", "values without IFS characters; NoGlob set",
                     "$$ is compared as <pid>"]
    if R.tier == "quick":
        # the four generator runs are independent: run them side by side
        import concurrent.futures
        jobs = [(2, False, None, "store2"), (2, True, None, "store2u"), (12, False, 3, "storesim"), (12, True, 2, "storesimu")]
        with concurrent.futures.ThreadPoolExecutor(max_workers=4) as ex:
            parts = list(ex.map(lambda j: gen(R, j[0], j[1], simulate=j[2], name=j[3]) if j[2] else gen(R, j[0], j[1], name=j[3]), jobs))
        cases = [c for p in parts for c in p]
    else:
        # (all histories of 3 operations are 3 million with this alphabet: more than the harness can hold; longer random ones instead)
        cases = gen(R, 2, False, name="store2") + gen(R, 2, True, name="store2u")
        cases += gen(R, 16, False, simulate=40, name="storesim") + gen(R, 16, True, simulate=30, name="storesimu")
    cases = [c for c in cases if c["hist"]]
    obs = check(R, cases, "st")
    R.evaluations = sum(len(o["steps"]) for o in obs)
    R.traces = len(obs)
    R.nontrivial = set(json.dumps([(s["op"], s["n"], s["v"]) for s in o["steps"]]) for o in obs
                       if any(s["op"] in (":=", "=", "a=", "a+=", "a++", "++a", "a--") or s["obs"]["res"].startswith("error") for s in o["steps"]))
    for o in obs[-2:]:
        R.sample(dict(nounset=o["nounset"], history=[(s["op"], s["n"], s["v"], s["obs"]["res"]) for s in o["steps"]]))


def replay(R, doc):
    check(R, [doc["replay"]["case"]], "replay")
    R.evaluations = 1
