"""C01 -- parsing is total: any input yields a result or an error, never a crash or hang.

Input space from the specifications: every string up to N characters over the
shell's special characters (CharGen.tla), every viable token prefix extended
by one token or a broken word and single-token mutants of accepted strings
(ShellRecGen), derived programs and their layout variants (ShellGen).  Each
input is parsed in isolated worker processes under GODEBUG=panicnil=0 and
panicnil=1, delivered as string, []byte, io.Reader and io.RuneScanner, without
aliases and with alias tables (incl. cyclic ones).  A dead worker is bisected
to the killing input.  Total.tla / TotalCheck validate: every run returned
(no process death, no panic, no hang) and the outcome is the same for every
delivery and panicnil setting.  The design-level part (no stuck state,
termination of the hand-off protocol, both bail-out paths) is Proto.tla,
model-checked by the C06 check."""
import json, os, random
import vlib, shellgen, chargen
from checks import c03, c09

LEVEL = "model_checking"

ALIAS_TABLES = [
    {"a": "b ", "b": "a "}, {"a": "a"}, {"a": "b", "b": "c", "c": "a x"}, {"a": "{ a; }"}, {"a": "echo $(", "b": "'"},
    {"a": "if x; then", "fi": "fi"}, {"a": "b \n c", "c": "a "}, {"for": "a", "x": "for "}, {"a": "cat <<E\n", "E": "a"},
    {"a": "b x", "b": "a y"}, {"a": "b x ", "b": "c y", "c": "a z"}, {"a": "", "$": "a", "(": "a "}, {"a": "b; a", "b": "a & b "},
]


def corpus(R):
    """(inputs, n): the first n inputs are delivered in all four ways, the rest (a larger family) as a string, every 16th in all ways"""
    srcs = chargen.strings(R, chargen.SHELL_ALPHA, 3 if R.tier == "quick" else 4)
    rec = c03.gen(R, 3 if R.tier == "quick" else 4, False, name="recbfs")
    srcs += [c["src"] for c in rec]
    mut = c03.gen(R, 8, True, simulate=6 if R.tier == "quick" else 400, name="recmut")
    srcs += [c["src"] for c in mut]
    progs = c09.gen(R, 2, 10 if R.tier == "quick" else 300)
    for c in progs:
        srcs.append(c["src"])
        srcs += [v["src"] for v in c["variants"] if v["kind"] in ("comment", "continuation", "semi2nl", "blankline", "comment-eof")]
    srcs += ["<<\\", "cat <<E\n\nx\nE\n", "a \\", "cat <<-E\n\tx\n\tE\n", "f() echo '" + "x" * 60, "`a | ", "$((", "((", "${", "a | | $(\n"]
    srcs = list(dict.fromkeys(srcs))
    n = len(srcs)
    # substitution openers / closers: longer strings over a small alphabet (unbalanced ` $( ( ) followed by operators)
    fam = chargen.strings(R, ["a", "`", "$", "(", ")", "&", ";", "NL"], 5 if R.tier == "quick" else 6, name="closers")
    srcs = list(dict.fromkeys(srcs + fam))
    return srcs, n


def run(R):
    R.rule = ("cases = (input, delivery, panicnil, aliases): every string up to N characters over 18 shell-significant characters, every "
              "viable token prefix + one token / broken word, every string up to 5 characters over a ` $ ( ) & ; newline, single-token mutants of accepted strings, derived programs and layout "
              "variants x {string, bytes, reader, scanner} x {panicnil=0, panicnil=1} x {no aliases, 9 alias tables incl. cycles}; "
              "distinct_nontrivial = distinct inputs that contain an operator, a quote or an expansion")
    R.assumptions = ["workers are separate processes; a watchdog of 5 s per parse reports a hang; a dead worker's batch is bisected",
                     "alias tables are applied to a seeded sample of the corpus (every input gets the no-alias runs)"]
    srcs, nfull = corpus(R)
    rnd = random.Random(R.seed)
    cases = []
    for i, s in enumerate(srcs):
        for src in (("string", "bytes", "reader", "scanner") if i < nfull or i % 16 == 0 else ("string",)):
            cases.append(dict(id="%d|%s|" % (i, src), src=s, source=src))
    sample = rnd.sample(range(len(srcs)), min(len(srcs), 3000 if R.tier == "quick" else 40000))
    for n, i in enumerate(sample):
        t = n % len(ALIAS_TABLES)
        for src in ("string", "scanner"):
            cases.append(dict(id="%d|%s|%d" % (i, src, t), src=srcs[i], source=src, aliases=ALIAS_TABLES[t]))
    runs = {}
    for pn in ("0", "1"):
        obs, killers = R.drive_isolated("parse", cases, env={"GODEBUG": "panicnil=" + pn}, timeout=1200)
        for o in obs:
            i, src, t = o["id"].split("|")
            runs.setdefault(int(i), []).append(dict(source=src, panicnil=int(pn), aliases=t, err=o["err"], sk=o["sk"], panic=o["panic"], exit=0))
        for c, rc, err in killers:
            i, src, t = c["id"].split("|")
            runs.setdefault(int(i), []).append(dict(source=src, panicnil=int(pn), aliases=t, err=dict(class_="dead"), sk=[],
                                                    panic="worker died: " + err[-600:], exit=rc if rc else 1))
    # "never block forever" also when the source fails: every fault position of the short inputs
    short = [i for i, s in enumerate(srcs) if len(s) <= 6]
    short = rnd.sample(short, min(len(short), 4000 if R.tier == "quick" else 60000))
    fobs, fkill = R.drive_isolated("faults", [dict(id="%d|faults|" % i, src=srcs[i]) for i in short], timeout=1800)
    for o in fobs:
        i = int(o["id"].split("|")[0])
        for f in o["faults"]:
            for kind in ("sc", "rd"):
                x = f[kind]
                if x["panic"] or x["err"]["class"] == "hang":
                    runs.setdefault(i, []).append(dict(source="%s failing from %d" % (kind, f["k"]), panicnil=-1, aliases="", err=x["err"],
                                                       sk=[], panic=x["panic"], exit=0))
    for c, rc, err in fkill:
        i = int(c["id"].split("|")[0])
        runs.setdefault(i, []).append(dict(source="failing reader", panicnil=-1, aliases="", err={"class": "dead"}, sk=[],
                                           panic="worker died: " + err[-600:], exit=rc if rc else 1))
    R.notes["fault_runs"] = sum(2 * len(o["faults"]) for o in fobs)
    recs = []
    for i in sorted(runs):
        rr = runs[i]
        for r in rr:
            if "class_" in r["err"]:
                r["err"] = {"class": "dead"}
        # the no-alias runs first
        rr.sort(key=lambda r: (r["aliases"] != "", r["aliases"], r["panicnil"] < 0, r["source"], r["panicnil"]))
        recs.append(dict(src=srcs[i], runs=rr))
    bad = sorted(s + p[1] - 1 for s, p in R.pvalidate("TotalCheck", recs, 6000, "c01") if p[0] == "MISMATCH")
    for k in bad:
        r = recs[k]
        culprit = [x for x in r["runs"] if x["exit"] != 0 or x["panic"] or x["err"]["class"] == "hang"] or r["runs"][:3]
        ex = dict(src=r["src"], runs=[dict(source=x["source"], panicnil=x["panicnil"], aliases=x["aliases"], err=x["err"]["class"],
                                          panic=x["panic"][-400:], exit=x["exit"]) for x in culprit[:3]])
        R.violation("parse not total / configuration dependent: %s" % json.dumps(ex, ensure_ascii=False)[:1600],
                    dict(kind="total", case=dict(src=r["src"])), coords=dict(src=r["src"]))
    R.evaluations = sum(len(r["runs"]) for r in recs)
    R.traces = len(recs)
    R.nontrivial = set(r["src"] for r in recs if any(ch in r["src"] for ch in "|&;()<>'\"`$\\"))
    for r in recs[len(recs) // 2: len(recs) // 2 + 3]:
        R.sample(dict(src=r["src"], runs=len(r["runs"]), outcome=r["runs"][0]["err"]["class"]))
    R.notes.update(inputs=len(recs), alias_tables=len(ALIAS_TABLES))


def replay(R, doc):
    src = doc["replay"]["case"]["src"]
    cases = [dict(id="0|%s|" % s, src=src, source=s) for s in ("string", "bytes", "reader", "scanner")]
    bad = 0
    for pn in ("0", "1"):
        obs, killers = R.drive_isolated("parse", cases, env={"GODEBUG": "panicnil=" + pn})
        bad += len(killers) + sum(1 for o in obs if o["panic"])
    if bad:
        R.violation("replay: %r still crashes / hangs" % src, doc["replay"], coords=dict(src=src))
    R.evaluations = 8
