"""Shared machinery of /verif/bin/check: scratch space, TLC runs, the Go
driver, verdict bookkeeping (violations, known findings, evidence).

Verdict policy (DESIGN.md section 6): exit 1 only for a real-code observation
that fails a property predicate; machinery trouble is exit 2."""
import json, os, re, shutil, subprocess, sys, tempfile, time, hashlib, atexit, signal

VERIF = os.path.dirname(os.path.dirname(os.path.abspath(__file__)))
REPO = os.environ.get("VERIF_REPO", "/repo")
SPECS = os.path.join(VERIF, "specs")
HARNESS = os.path.join(VERIF, "harness")
TLAJAR = "/opt/veriftools/tla/tla2tools.jar:/opt/veriftools/tla/CommunityModules-deps.jar"
NCPU = os.cpu_count() or 4

GOENV = dict(GOFLAGS="-mod=mod", GOPROXY="off", GOSUMDB="off", GOTOOLCHAIN="local",
             CGO_ENABLED=os.environ.get("CGO_ENABLED", "1"))


class MachineryError(Exception):
    """The machinery could not do its job (exit 2, never a violation)."""


def log(*a):
    print("[verif]", *a, file=sys.stderr, flush=True)


class TLCResult:
    def __init__(self):
        self.out = ""
        self.prints = []      # parsed PrintT tuples: list of python lists
        self.generated = 0
        self.distinct = 0
        self.errors = []
        self.violated = []    # invariant / property names reported violated
        self.deadlock = False
        self.rc = 0
        self.wall = 0.0


_TUPLE = re.compile(r'^<<(.*)>>$')


def _parse_tla_value(s):
    """Parse the small subset of TLC value syntax used in PrintT lines:
    tuples of strings / ints / booleans / nested tuples."""
    pos = 0

    def ws():
        nonlocal pos
        while pos < len(s) and s[pos] in " \n\t":
            pos += 1

    def val():
        nonlocal pos
        ws()
        if s.startswith("<<", pos):
            pos += 2
            items = []
            ws()
            if s.startswith(">>", pos):
                pos += 2
                return items
            while True:
                items.append(val())
                ws()
                if s.startswith(">>", pos):
                    pos += 2
                    return items
                if s[pos] != ",":
                    raise ValueError("tuple syntax at %d in %r" % (pos, s[:80]))
                pos += 1
        if s[pos] == '"':
            j = pos + 1
            buf = []
            while s[j] != '"':
                if s[j] == "\\":
                    buf.append(s[j:j + 2])
                    j += 2
                else:
                    buf.append(s[j])
                    j += 1
            lit = "".join(buf)
            pos = j + 1
            return json.loads('"' + lit + '"')
        m = re.match(r'-?\d+', s[pos:])
        if m:
            pos += m.end()
            return int(m.group(0))
        for kw, v in (("TRUE", True), ("FALSE", False)):
            if s.startswith(kw, pos):
                pos += len(kw)
                return v
        raise ValueError("value syntax at %d in %r" % (pos, s[:80]))

    v = val()
    return v


def _balanced(s):
    """True when every << has its >> (string literals skipped)."""
    depth, i, n = 0, 0, len(s)
    while i < n:
        c = s[i]
        if c == '"':
            i += 1
            while i < n and s[i] != '"':
                i += 2 if s[i] == "\\" else 1
        elif s.startswith("<<", i):
            depth += 1
            i += 1
        elif s.startswith(">>", i):
            depth -= 1
            i += 1
        i += 1
    return depth <= 0


class Run:
    """One invocation of a check."""

    def __init__(self, prop, tier, seed, level, replay=None):
        self.prop, self.tier, self.seed, self.level = prop, tier, seed, level
        self.replay = replay
        self.t0 = time.time()
        self.scratch = tempfile.mkdtemp(prefix="verif-%s-" % prop)
        atexit.register(self.cleanup)
        self.states = 0
        self.transitions = 0
        self.evaluations = 0
        self.traces = 0
        self.nontrivial = set()
        self.samples = []
        self.violations = []
        self.known = []
        self.notes = {}
        self.rule = ""
        self.assumptions = []
        self.exhaustive = None
        self.tlc_runs = []
        self._kf = None
        self._nreplay = 0
        self._drivers = {}

    def cleanup(self):
        shutil.rmtree(self.scratch, ignore_errors=True)

    # ---------------------------------------------------------------- paths
    def path(self, *p):
        d = os.path.join(self.scratch, *p)
        os.makedirs(os.path.dirname(d), exist_ok=True)
        return d

    # ------------------------------------------------------------------ TLC
    def tlc(self, module, cfg, *, workers=None, simulate=None, depth=None, env=None,
            timeout=900, deadlock=False, name=None, heap=None, extra=(), count=True,
            coverage=False, defs=None):
        """Run TLC on specs/<module>.tla with the given cfg text in a scratch
        copy of the specs.  Returns a TLCResult; raises MachineryError on
        TLC/SANY errors that are not property verdicts."""
        name = name or module
        wd = self.path("tlc-%s-%d" % (name, len(self.tlc_runs)), "x")
        wd = os.path.dirname(wd)
        for f in os.listdir(SPECS):
            if f.endswith(".tla"):
                shutil.copy(os.path.join(SPECS, f), wd)
        if defs is not None:
            # model module: constants that a cfg file cannot express (tuples, strings with escapes)
            mc = "MC" + re.sub(r"[^A-Za-z0-9_]", "_", name)
            with open(os.path.join(wd, mc + ".tla"), "w") as f:
                f.write("---- MODULE %s ----\nEXTENDS %s\n%s\n====\n" % (mc, module, defs))
            module, name = mc, mc
        with open(os.path.join(wd, name + ".cfg"), "w") as f:
            f.write(cfg)
        workers = workers or NCPU
        cmd = ["java", "-XX:+UseParallelGC", "-Xss512m", "-Djava.io.tmpdir=" + wd]
        if heap:
            cmd.append("-Xmx" + heap)
        cmd += ["-cp", TLAJAR, "tlc2.TLC", "-metadir", os.path.join(wd, "meta"),
                "-workers", str(workers), "-config", name + ".cfg", "-noGenerateSpecTE"]
        if not deadlock:
            cmd.append("-deadlock")
        if simulate is not None:
            cmd += ["-simulate", simulate]
            if depth:
                cmd += ["-depth", str(depth)]
            cmd += ["-seed", str(self.seed)]
        if coverage:
            cmd += ["-coverage", "1"]
        cmd += list(extra)
        cmd.append(module + ".tla")
        e = dict(os.environ)
        e.update(env or {})
        t0 = time.time()
        try:
            p = subprocess.run(cmd, cwd=wd, env=e, stdout=subprocess.PIPE, stderr=subprocess.STDOUT,
                               timeout=timeout)
        except subprocess.TimeoutExpired:
            raise MachineryError("TLC timeout (%ds) on %s" % (timeout, name))
        r = TLCResult()
        r.wall = time.time() - t0
        r.rc = p.returncode
        r.out = p.stdout.decode("utf-8", "replace")
        pending = None
        for line in r.out.splitlines():
            # PrintT values: TLC wraps long tuples over several lines
            if pending is not None:
                pending += " " + line.strip()
            elif line.startswith("<<"):
                pending = line
            if pending is not None:
                if _balanced(pending):
                    try:
                        r.prints.append(_parse_tla_value(pending))
                    except Exception:
                        pass
                    pending = None
                elif len(pending) > 5000000:
                    pending = None
                continue
            m = re.match(r'^(\d+) states generated, (\d+) distinct states found', line)
            if m:
                r.generated, r.distinct = int(m.group(1)), int(m.group(2))
            m = re.match(r'^The number of states generated: (\d+)', line)
            if m:
                r.generated = int(m.group(1))
                r.distinct = max(r.distinct, r.generated)
            if line.startswith("Error:"):
                r.errors.append(line)
                m = re.match(r'^Error: Invariant (\S+) is violated', line)
                if m:
                    r.violated.append(m.group(1))
                if "Temporal properties were violated" in line or "is violated" in line and "Action property" in line:
                    r.violated.append("temporal")
                m = re.match(r'^Error: Action property (\S+) is violated', line)
                if m:
                    r.violated.append(m.group(1))
                if "Deadlock reached" in line:
                    r.deadlock = True
        if count:
            self.states += r.distinct
            self.transitions += r.generated
        self.tlc_runs.append(dict(name=name, module=module, generated=r.generated, distinct=r.distinct,
                                  wall_s=round(r.wall, 2), rc=r.rc,
                                  mode=("simulate " + simulate) if simulate else "bfs"))
        hard = [x for x in r.errors if not ("is violated" in x or "Deadlock reached" in x
                                            or "behavior up to this point" in x
                                            or "Temporal properties were violated" in x
                                            or "Simulation" in x)]
        if hard or (r.rc != 0 and not r.errors):
            with open(os.path.join(VERIF, "build", "last_tlc_error.log") if os.path.isdir(os.path.join(VERIF, "build")) else os.devnull, "w") as f:
                f.write(r.out)
            raise MachineryError("TLC failed on %s: %s\n%s" % (name, hard[:3], r.out[-3000:]))
        return r

    # ------------------------------------------------------------ Go driver
    def build_driver(self, race=False, tags="verif"):
        key = (race, tags)
        if key in self._drivers:
            return self._drivers[key]
        out = self.path("bin", "driver" + ("-race" if race else "") + "-" + (tags or "notag"))
        e = dict(os.environ)
        e.update(GOENV)
        cmd = ["go", "build", "-o", out]
        if tags:
            cmd += ["-tags", tags]
        if race:
            cmd.append("-race")
        cmd.append("./cmd/driver")
        harness = HARNESS
        alt = os.environ.get("VERIF_REPO")
        if alt and os.path.realpath(alt) != "/repo":
            # development aid (background runs on a snapshot of the repository): the registered commands never set it
            harness = self.path("harness-alt", "x")
            harness = os.path.dirname(harness)
            shutil.rmtree(harness, ignore_errors=True)
            shutil.copytree(HARNESS, harness)
            with open(os.path.join(harness, "go.mod")) as f:
                gm = f.read().replace("=> /repo", "=> " + os.path.realpath(alt))
            with open(os.path.join(harness, "go.mod"), "w") as f:
                f.write(gm)
            log("driver built against", alt)
        p = subprocess.run(cmd, cwd=harness, env=e, stdout=subprocess.PIPE, stderr=subprocess.STDOUT)
        if p.returncode != 0:
            raise MachineryError("go build failed:\n" + p.stdout.decode("utf-8", "replace")[-4000:])
        self._drivers[key] = out
        return out

    def drive(self, mode, cases, *, args=(), env=None, race=False, timeout=1800, shards=1,
              allow_fail=False, header=None):
        """Run the driver in `mode` over the list of case dicts (or a path);
        returns (list of observation dicts, list of (returncode, stderr) per shard)."""
        drv = self.build_driver(race=race)
        if isinstance(cases, str):
            with open(cases) as f:
                lines = f.read().splitlines()
        else:
            lines = [json.dumps(c, ensure_ascii=False) for c in cases]
        shards = max(1, min(shards, len(lines) or 1))
        chunks = [lines[i::shards] for i in range(shards)]
        procs = []
        e = dict(os.environ)
        e.update(env or {})
        for i, ch in enumerate(chunks):
            inp = self.path("drv", "%s-%d-%d.in" % (mode, len(self.tlc_runs), i))
            with open(inp, "w") as f:
                if header is not None:
                    f.write(json.dumps(header, ensure_ascii=False) + "\n")
                f.write("\n".join(ch) + ("\n" if ch else ""))
            outp = inp[:-3] + ".out"
            fi = open(inp)
            fo = open(outp, "w")
            p = subprocess.Popen([drv, mode] + list(args), stdin=fi, stdout=fo, stderr=subprocess.PIPE, env=e)
            procs.append((p, fi, fo, outp))
        obs, status = [], []
        for p, fi, fo, outp in procs:
            try:
                _, err = p.communicate(timeout=timeout)
            except subprocess.TimeoutExpired:
                p.kill()
                _, err = p.communicate()
                err = (err or b"") + b"\nTIMEOUT"
                p.returncode = -9
            fi.close()
            fo.close()
            status.append((p.returncode, (err or b"").decode("utf-8", "replace")))
            with open(outp) as f:
                for line in f:
                    line = line.strip()
                    if line:
                        obs.append(json.loads(line))
        if not allow_fail:
            bad = [s for s in status if s[0] != 0]
            if bad:
                raise MachineryError("driver %s failed: rc=%s\n%s" % (mode, bad[0][0], bad[0][1][-3000:]))
        return obs, status

    def drive_isolated(self, mode, cases, *, env=None, shards=None, timeout=600, args=()):
        """Run cases in worker processes that may die (a panic in a background goroutine cannot be
        recovered by the driver).  A dead worker's batch is bisected down to the killing inputs;
        returns (observations, [(case, returncode, stderr tail)])."""
        drv = self.build_driver()
        e = dict(os.environ)
        e.update(env or {})
        e["VERIF_UNBUFFERED"] = "1"
        shards = shards or NCPU
        obs, killers = [], []

        def run_batch(batch):
            p = subprocess.run([drv, mode] + list(args), input="\n".join(json.dumps(c, ensure_ascii=False) for c in batch).encode(),
                               stdout=subprocess.PIPE, stderr=subprocess.PIPE, env=e, timeout=timeout)
            out = []
            for l in p.stdout.decode("utf-8", "replace").splitlines():
                if l.strip().startswith("{"):
                    try:
                        out.append(json.loads(l))
                    except ValueError:
                        break          # a line cut short by the death of the worker
            return p.returncode, out, p.stderr.decode("utf-8", "replace")

        cap = 40          # enough killing inputs to report; the rest of the corpus is skipped once reached

        def solve(batch):
            i = 0
            while i < len(batch):
                if len(killers) >= cap:
                    self.skipped_isolated = getattr(self, "skipped_isolated", 0) + len(batch) - i
                    return
                try:
                    rc, out, err = run_batch(batch[i:])
                except subprocess.TimeoutExpired:
                    rc, out, err = -9, [], "TIMEOUT"
                obs.extend(out)           # the outputs before the crash are valid
                if rc == 0 and len(out) == len(batch) - i:
                    return
                i += len(out)
                if i >= len(batch):
                    return
                # batch[i] is the suspect: confirm it alone
                try:
                    rc1, out1, err1 = run_batch(batch[i:i + 1])
                except subprocess.TimeoutExpired:
                    rc1, out1, err1 = -9, [], "TIMEOUT"
                if rc1 == 0 and len(out1) == 1:
                    obs.extend(out1)
                else:
                    killers.append((batch[i], rc1, err1[-1500:]))
                i += 1

        import concurrent.futures
        chunks = [cases[i::shards] for i in range(shards)]
        with concurrent.futures.ThreadPoolExecutor(max_workers=shards) as ex:
            list(ex.map(solve, chunks))
        return obs, killers

    def pvalidate(self, module, recs, shard, name, cfg="INIT Init\nNEXT Next\nINVARIANT Chk\n", extra_states=0, env_key="VERIF_OBS", timeout=3000):
        """Validate observation records with a *Check module, `shard` records per TLC run (one worker each), the runs
        side by side.  Returns [(offset of the shard, parsed PrintT tuple)] for every tuple printed."""
        import concurrent.futures

        def one(s):
            part = recs[s:s + shard]
            path = self.path("obs", "%s-%d.ndjson" % (name, s))
            write_ndjson(path, part)
            res = self.tlc(module, cfg, env={env_key: path}, workers=1, name="%s-check%d" % (name, s), timeout=timeout)
            if res.distinct != len(part) + extra_states:
                raise MachineryError("%s visited %d of %d records" % (module, res.distinct - extra_states, len(part)))
            return [(s, p) for p in res.prints if p]

        out = []
        with concurrent.futures.ThreadPoolExecutor(max_workers=max(1, NCPU // 2)) as ex:
            for r in ex.map(one, range(0, len(recs), shard)):
                out += r
        return out

    def parallel(self, thunks):
        """run independent generator calls side by side; returns their results in order"""
        import concurrent.futures
        with concurrent.futures.ThreadPoolExecutor(max_workers=len(thunks)) as ex:
            return list(ex.map(lambda f: f(), thunks))

    # ------------------------------------------------------- known findings
    def known_findings(self):
        if self._kf is None:
            with open(os.path.join(VERIF, "known_findings.json")) as f:
                self._kf = [x for x in json.load(f)["findings"]
                            if x.get("status") == "known" and x.get("property") == self.prop]
        return self._kf

    def match_known(self, coords):
        """coords: dict of abstract coordinates of a failing case.  A known
        finding matches when every key of its `match` equals the coordinate."""
        for k in self.known_findings():
            m = k.get("match", {})
            if m and all(coords.get(a) == b for a, b in m.items()):
                return k
        return None

    # -------------------------------------------------------------- verdicts
    def violation(self, what, replay, coords=None):
        """Record a failing observation.  `replay` is a JSON-able object that
        reproduces it."""
        k = self.match_known(coords or {}) if coords is not None else None
        if k is not None:
            if k["id"] not in [x["id"] for x in self.known]:
                self.known.append(k)
                print("KNOWN-FINDING: property=%s %s" % (self.prop, k["what"]), flush=True)
            return False
        if len(self.violations) >= 25:
            self.violations.append(None)
            return True
        outdir = os.environ.get("VERIF_OUT") or VERIF
        os.makedirs(os.path.join(outdir, "replays"), exist_ok=True)
        self._nreplay += 1
        path = os.path.join(outdir, "replays", "%s-%s-%d-%d.json" % (self.prop, self.tier, self.seed, self._nreplay))
        with open(path, "w") as f:
            json.dump(dict(property=self.prop, what=what, replay=replay,
                           cmd="bin/check %s --replay %s" % (self.prop, path)), f, indent=1, ensure_ascii=False)
        print("VIOLATION property=%s replay=%s" % (self.prop, path), flush=True)
        log("violation:", what)
        self.violations.append(path)
        return True

    def sample(self, x, limit=5):
        if len(self.samples) < limit:
            self.samples.append(x)

    # -------------------------------------------------------------- evidence
    def finish(self, extra_cov=None):
        cov = dict(evaluations=int(self.evaluations), distinct_nontrivial=len(self.nontrivial)
                   if isinstance(self.nontrivial, set) else int(self.nontrivial),
                   rule=self.rule, samples=self.samples[:8])
        if self.level == "model_checking":
            cov.update(states=int(self.states), transitions=int(self.transitions),
                       traces_validated_against_impl=int(self.traces))
        if self.exhaustive is not None:
            cov["exhaustive"] = bool(self.exhaustive)
        cov["tlc_runs"] = self.tlc_runs
        cov.update(self.notes)
        if extra_cov:
            cov.update(extra_cov)
        ev = dict(property_id=self.prop, tier=self.tier, seed=int(self.seed), level=self.level,
                  coverage=cov, assumptions=self.assumptions, wall_s=round(time.time() - self.t0, 2),
                  violations=len(self.violations),
                  known_findings=[k["id"] for k in self.known])
        if not self.replay:
            # VERIF_OUT (development aid, never set by the registered commands): evidence and replays of a trial run go elsewhere
            outdir = os.environ.get("VERIF_OUT") or VERIF
            os.makedirs(os.path.join(outdir, "evidence"), exist_ok=True)
            with open(os.path.join(outdir, "evidence", self.prop + ".json"), "w") as f:
                json.dump(ev, f, indent=1, ensure_ascii=False)
        log("%s %s: evaluations=%d nontrivial=%d states=%d violations=%d known=%d wall=%.1fs" % (
            self.prop, self.tier, cov["evaluations"], cov["distinct_nontrivial"], self.states,
            len(self.violations), len(self.known), time.time() - self.t0))
        return 1 if self.violations else 0


def digest(x):
    return hashlib.sha1(json.dumps(x, sort_keys=True, ensure_ascii=False).encode()).hexdigest()[:12]


def write_ndjson(path, recs):
    with open(path, "w") as f:
        for r in recs:
            f.write(json.dumps(r, ensure_ascii=False))
            f.write("\n")


def heap_next(n_expr="N"):
    """TLA+ text of a Next that visits 1..N as a binary heap (parallel BFS)."""
    return "\\E c \\in {2 * k, 2 * k + 1} : c <= %s /\\ k' = c" % n_expr
