"""Character-level strings from specs/CharGen.tla."""
import json
import vlib

SYM = {"NL": "\n", "SP": " ", "TAB": "\t", "DQ": '"', "U1": "é", "U2": "あ"}
SHELL_ALPHA = ["a", "$", "DQ", "'", "\\", "SP", "NL", "{", "}", "(", ")", "`", "#", ";", "=", "<", "|", "&"]


def tla_seq(xs):
    return "<<" + ", ".join('"' + x.replace("\\", "\\\\") + '"' for x in xs) + ">>"


def strings(R, alpha, maxlen, name="chargen"):
    defs = "MCAlpha == %s\n" % tla_seq(alpha)
    cfg = "INIT Init\nNEXT Next\nINVARIANT Emit\nCONSTANTS\n Alpha <- MCAlpha\n MaxLen = %d\n" % maxlen
    res = R.tlc("CharGen", cfg, defs=defs, name=name, timeout=3000)
    out = []
    for p in res.prints:
        if p and p[0] == "STR":
            out.append("".join(SYM.get(x, x) for x in json.loads(p[1])))
    want = sum(len(alpha) ** i for i in range(maxlen + 1))
    if len(out) != want:
        raise vlib.MachineryError("CharGen: %d strings, expected %d" % (len(out), want))
    return out
