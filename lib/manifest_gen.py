#!/usr/bin/env python3
"""Regenerates /verif/MANIFEST.json from the table below (kept in one place so
that the manifest is always valid and in step with the checks)."""
import json, os, subprocess

VERIF = os.path.dirname(os.path.dirname(os.path.abspath(__file__)))

CHECKS = {
    "C12": dict(
        category="model_checking",
        text="Pattern.tla is an executable reference of the pattern notation (bracket parser, backtracking matcher, the four "
             "removal modes).  TLC enumerates every pattern up to a bound (one state per pattern) with the expected result for "
             "every subject up to a bound; the real pattern.Match is run on every (pattern, subject, mode) and TLC validates every "
             "observation record against the spec.  Exhaustive within the stated bounds; nothing beyond them.",
        note="Trusted: Pattern.tla's reading of XCU 2.13 (unterminated '[' and a trailing backslash are 'either'; [. [= [: are "
             "outside the modelled fragment), the symbol-to-character map of the driver, TLC.",
        technique="TLA+ reference model enumerated by TLC, observations of the real code validated by TLC",
        design="7/C12"),
}

CHECKS["C14"] = dict(
    category="model_checking",
    text="Split.tla gives the splitting rule twice (operational machine with the white-space / non-white-space delimiter rules, "
         "and the declarative 'fields are the maximal runs of non-delimiter positions'); TLC checks them against each other on "
         "every word up to the bound, enumerates every word up to MaxLen segments over 13 segment kinds and 8 IFS settings, and "
         "validates every observation of the real ExecEnv.Expand (two constructions per word) by recomputing the expectation.",
    note="Trusted: the reading of the statement in Split.tla, the driver's construction of ast.Word values from segment ids, TLC.",
    technique="TLA+ reference model enumerated by TLC, observations of the real code validated by TLC",
    design="7/C14")

CHECKS["C02"] = dict(
    category="model_checking",
    text="ShellGrammar.tla is the grammar of the dialect annotated with skeleton markers; ShellGen.tla is a leftmost-derivation "
         "machine explored by TLC: exhaustively for every derivation within a deviation budget (every production, every pair "
         "of productions in every relative position; triples in the thorough tier) and by seeded simulation for long programs. "
         "Each program is parsed by the real ParseCommands and every observation is validated by TLC against the derivation's "
         "skeleton and the documented node shapes (ShellCheck.tla).",
    note="Trusted: the grammar transcription and its marker annotations, the AST->skeleton projection (harness/proj), TLC. Word "
         "forms come from pools (LeafParts, HereDocs), so character-level word structure beyond the pools is not covered here.",
    technique="TLA+ grammar/derivation model explored by TLC (BFS + simulation), parser observations validated by TLC",
    design="7/C02")

CHECKS["C05"] = dict(
    category="model_checking",
    text="Programs derived by ShellGen.tla (exhaustive within the deviation budget + seeded simulation) are parsed, printed under "
         "each of the 256 configurations enumerated by PrintRT.tla (TLC checks that the enumeration is the complete product), "
         "re-parsed and projected; TLC validates every record with PrintRT!RoundTrip (nil error, whole text consumed, "
         "Norm-equal skeletons, i.e. same commands, operators, words, parts, redirections and here-document bodies).",
    note="Trusted: ShellSkel!Norm as the 'same program' relation, the projection, byte-identity pre-filter in the driver, TLC.",
    technique="TLA+-generated programs x TLA+-enumerated configuration space, observations validated by TLC",
    design="7/C05")
CHECKS["C18"] = dict(
    category="model_checking",
    text="Same programs and configuration space as C05; per (program, configuration) the driver records idempotence of "
         "print/parse/print, determinism of two prints, a complete dump of the tree before and after Fprint, and for every k "
         "below the output length whether a writer failing after k bytes is reported; TLC validates every record (PrintRT!C18Holds).",
    note="Trusted: harness/proj/dump.go shows every field (reflect, including unexported positions); writer faults are enumerated "
         "for every 4th program under two configurations; TLC.",
    technique="TLA+-generated programs x TLA+-enumerated configuration space, fault enumeration over writer positions, validated by TLC",
    design="7/C18")

CHECKS["C09"] = dict(
    category="model_checking",
    text="The terminals of ShellGrammar.tla carry the grammar's layout contract (blanks allowed / tokens must touch, a linebreak "
         "may follow, this ';' may be a newline).  ShellGen!Variants applies every single transformation of the property at every "
         "token boundary the contract allows, for every program within the deviation budget and for seeded long programs; the real "
         "parser runs on base and variants; LayoutCheck.tla validates Norm-equality with the base parse and the exact comment list.",
    note="Trusted: the layout contract in the grammar, ShellSkel!Norm, the projection, TLC.  Line continuations directly followed by "
         "a comment/empty line inside a linebreak are a known finding and are probed, not generated.",
    technique="TLA+-generated programs and layout variants, metamorphic relation validated by TLC",
    design="7/C09")
CHECKS["C07"] = dict(
    category="model_checking",
    text="Stream.tla models successive ParseCommands calls on one scanner (state: next segment, runes consumed; one action Call with "
         "the leading-comment rule); the run of a stream is unique.  Streams are seeded random sequences of generated commands "
         "(incl. here-documents, multi-line compounds, trailing comments, continuations), blank lines and comment lines; the driver "
         "records the position after every real call and parses every command alone; StreamCheck validates every recorded call.",
    note="Trusted: Stream.tla's Call (a leading comment line is skipped with the blank lines after it -- pinned by the repository's "
         "tests), the alone-parse as oracle for results, the counting RuneScanner of the driver, TLC.",
    technique="TLA+ state machine of the call sequence, recorded traces of the real code validated by TLC",
    design="7/C07")

CHECKS["C10"] = dict(
    category="fault_enumeration",
    text="For every generated program the complete set of single-fault positions is enumerated (every rune index k in 0..len as the "
         "first failing read), for a custom io.RuneScanner and for an io.Reader; Fault.tla states what each observation must "
         "satisfy (delivered => errors.Is for both sources; not delivered => identical to the fault-free parse; never a nil error "
         "with a different tree; no panic, no hang) and TLC validates every (program, k) record.",
    note="Trusted: the fault-injecting sources of the driver (persistent failure from k on), the 5 s hang watchdog, Fault.tla, TLC. "
         "Programs: derivations within the deviation budget, all programs with a case break among the 3-deviation ones, samples.",
    technique="exhaustive single-fault enumeration per program, observations validated by TLC against a TLA+ predicate",
    design="7/C10")
CHECKS["C08"] = dict(
    category="model_checking",
    text="The here-document focus of ShellGrammar.tla (start symbol hdprog) lets TLC enumerate every combination of 1-3 pool entries "
         "(bodies with empty first line, delimiter prefixes/suffixes, tabs, $x, $(..), backquotes, backslashes; quoted, unquoted, "
         "partially quoted and <<- delimiters) at 12 kinds of redirection site; general ShellGen programs with here-documents are "
         "added.  HdCheck.tla validates bodies and delimiter lines byte for byte in source order and the skeleton (expansion "
         "parts iff unquoted delimiter).",
    note="Trusted: the pool and site list of the grammar, the projection (printer.Fprint of Redir.Heredoc/Delim for the text), TLC. "
         "Lexer/parser schedules for here-documents are exercised by C06.",
    technique="TLA+ grammar focus enumerated by TLC, parser observations validated by TLC",
    design="7/C08")

CHECKS["C03"] = dict(
    category="model_checking",
    text="ShellRec.tla is an independent recursive-descent recogniser of the dialect (reserved words by position rules). TLC enumerates "
         "by BFS every viable prefix up to MaxLen tokens extended by every token of a 30-token alphabet and by broken words, and by "
         "simulation long accepted strings with all single-token deletions / duplications / swaps / insertions; each string is "
         "classified by the spec.  The real parser runs on each string from a counting rune scanner; RecCheck.tla validates "
         "acceptance, exact consumption, and for rejections a non-nil error whose parser.Error (if syntactic) carries the caller's "
         "name and a token-start position inside the consumed text.",
    note="Trusted: ShellRec.tla (cross-validated at design time against dash/bash and 7 M strings), the token renderer, TLC. Messages "
         "are not compared. Unbalanced (( )) words are generated only at parenthesis depth 0 (known finding arith-in-paren).",
    technique="TLA+ reference recogniser enumerated by TLC (BFS over viable prefixes, simulated mutations), observations validated by TLC",
    design="7/C03")
CHECKS["C04"] = dict(
    category="model_checking",
    text="PosWalk.tla is the position contract (spelling table of every position field, positions inside the source, Pos <= End, no "
         "zero End, children inside parents, siblings in increasing order).  The driver walks the AST of every accepted source and "
         "records one claim per node and per position field with the source text found there (character-indexed); TLC validates "
         "every claim.  Sources: ShellGen programs and all their layout variants, accepted ShellRec strings, every string up to N "
         "characters over the shell's special characters (CharGen.tla), multi-byte sources.",
    note="Trusted: the walker (harness/cmd/driver/poswalk.go) enumerates every node and field; PosWalk.tla's spelling table; TLC. "
         "End-containment of nodes holding a here-document is a known finding (non-contiguous text).",
    technique="TLA+ contract validated by TLC on recorded AST walks of TLA+-generated sources",
    design="7/C04")

CHECKS["C06"] = dict(
    category="model_checking",
    text="Proto.tla specifies the lexer/parser hand-off with one action per synchronisation point of the code.  (1) TLC explores all "
         "interleavings for all abstract scripts up to a bound (ProtoModel: tokens that are plain, lexer errors, look-ahead errors, "
         "parser errors, action errors, here-document announcements / reads, read faults, nested substitutions) and checks result "
         "determinism, quiescence at return, stability after return, no undecided select, pops never waiting, read errors kept, "
         "no stuck state, termination under fairness; weakened protocol variants must violate them.  (2) The gated scheduler of the "
         "harness forces schedules on the real code (extremes, decision bit-vectors, with read faults); every recorded trace is "
         "validated against Proto.tla (every event an enabled action, every invariant in every state) and SchedCheck.tla checks "
         "identical results over all schedules and quiescence at return.  (3) Free runs under the race detector, GOMAXPROCS 1/2/16.",
    note="Trusted: the verif hooks sit at every synchronisation point (add-only); between hooks goroutines run undisturbed; the choice "
         "a Go select makes between two ready branches cannot be forced, only repeated; TLC.",
    technique="explicit TLA+ protocol model checked by TLC; trace validation of recorded executions; schedule forcing through gated hooks",
    design="7/C06")

CHECKS["C01"] = dict(
    category="model_checking",
    text="Design level: Proto.tla (model-checked by the C06 check for all scripts and interleavings) shows that the hand-off protocol "
         "has no stuck state and terminates, including both bail-out paths.  Code level: the input spaces of the specifications "
         "(CharGen.tla: every string up to N characters over 18 shell-significant characters; ShellRecGen: viable token prefixes, "
         "broken words, single-token mutants; ShellGen: programs and layout variants) are parsed in isolated worker processes under "
         "panicnil=0 and panicnil=1, as string / bytes / io.Reader / io.RuneScanner, with and without (cyclic) alias tables, and the "
         "short inputs additionally with the source failing at every position; Total.tla validates that every run returned and that "
         "the outcome is independent of delivery and panicnil.",
    note="Trusted: process isolation and bisection in lib/vlib.py, the 3 s watchdog, TLC.  The oracle is totality, not correctness "
         "of the result (that is C02/C03).",
    technique="TLA+-enumerated input spaces driven through isolated workers, observations validated by TLC; protocol termination by TLC on Proto.tla",
    design="7/C01")

CHECKS["C17"] = dict(
    category="model_checking",
    text="Alias.tla is the substitution machine (examined positions, origin sets blocking self-expansion, trailing-blank rule, reserved "
         "words / assignments / quoted words copied).  TLC runs it for every alias table over the names {a, b} (values up to MaxVal "
         "tokens, with and without trailing blank, incl. self-reference and cycles) and every source up to MaxSrc tokens: termination "
         "at model level (bounded growth, every run reaches the end) and one conformance case per run; the real parser is run with "
         "the table on the source and without aliases on the machine's result (isolated workers, watchdog); AliasCheck validates "
         "equal outcome and skeleton.",
    note="Trusted: Alias.tla's reading of XCU 2.3.1 at token level (blank-separated tokens), the metamorphic oracle, TLC.  Aliases "
         "that expand to `in`/`do` in the third-word positions of for/case are outside the token alphabet.",
    technique="TLA+ rewriting machine explored exhaustively by TLC, metamorphic conformance validated by TLC",
    design="7/C17")

CHECKS["C20"] = dict(
    category="model_checking",
    text="Store.tla models the store as a map plus synthesised special / positional parameters, with the assigning expansions, "
         "pattern removal on positional parameters, the arithmetic assignment operators, and faulting operations that leave the "
         "store unchanged.  TLC enumerates every history of Depth operations over a universe of 15 names (NoUnset off and on), "
         "random long histories, and checks the model-level invariants; every history is replayed into a real ExecEnv and "
         "StoreCheck re-runs the model along the recorded operations, comparing result, Get of every name, the Walk set and "
         "intactness of Args/Opts/Aliases/AST after every step.",
    note="Trusted: Store.tla's operation semantics, the driver's mapping of operations to API calls (harness/cmd/driver/store.go), TLC.",
    technique="TLA+ state machine; histories generated by TLC, replayed into the real object, every step validated by TLC",
    design="7/C20")

CHECKS["C13"] = dict(
    category="model_checking",
    text="Param.tla transcribes the POSIX parameter-expansion table (state x operator -> value / word / assignment / error / null; $@ "
         "and $* field generation; nounset; length; pattern removal through Pattern.tla; field splitting of results through "
         "Split.tla).  TLC enumerates the full product of operators, parameter kinds and states, positional sets, words (incl. a "
         "side-effect word that reveals eager expansion), quoting, IFS and nounset; every cell is expanded by the real "
         "ExecEnv.Expand and validated by TLC (fields, error class, word expanded iff used, assignment iff prescribed).",
    note="Trusted: Param.tla's transcription of XCU 2.6.2; cells POSIX leaves open are marked Unspecified in the spec (${#*}; quoted "
         "${@ op word} without positional parameters) and only checked for absence of panics; the driver's AST construction; TLC.",
    technique="TLA+ table model; complete product enumerated by TLC, every cell validated by TLC",
    design="7/C13")

CHECKS["C15"] = dict(
    category="model_checking",
    text="Quote.tla defines the four literal spellings of a string and the property predicate; TLC enumerates every string up to MaxLen "
         "symbols over 26 characters (all shell specials, blank, tab, newline, multi-byte) with its spellings; the real parser and "
         "ExecEnv.Expand run on every spelling under every expansion mode in an adversarial environment; QuoteCheck validates "
         "one field equal to the string in every mode and, in Pattern mode, a pattern that Pattern.tla's matcher accepts for the "
         "string and rejects for all its perturbations.",
    note="Trusted: Quote.tla's spelling rules (XCU 2.2), the fixed adversarial environment of the driver, Pattern.tla, TLC.",
    technique="TLA+-enumerated strings and spellings, end-to-end observations validated by TLC",
    design="7/C15")

CHECKS["C16"] = dict(
    category="model_checking",
    text="Glob.tla is the reference for pathname expansion (component-wise matching through Pattern.tla, hidden-file rule, directories "
         "only before a slash, literal components by existence, escapes).  TLC enumerates 1296 trees (four names incl. a dot file and "
         "a name with a pattern character; files, directories with plain / dot children, dangling symlinks) x 264 patterns and computes "
         "the expected sets; the driver builds every tree in a scratch directory and runs the real pattern.Glob; GlobCheck validates "
         "set equality, existence, no duplicates, byte order, trailing slashes, and that no match is an empty result without error.",
    note="Trusted: Glob.tla, the scratch-directory builder of the driver, TLC.  Absolute patterns and repeated slashes are not generated; "
         "the quick tier samples 400 of the 1296 trees (seeded).",
    technique="TLA+ reference model; trees and patterns enumerated by TLC, file-system observations validated by TLC",
    design="7/C16")

CHECKS["C19"] = dict(
    category="exploration",
    text="Exploration driven by the specifications' input spaces: every string up to N characters over the shell's special characters "
         "(CharGen.tla; accepted ones go downstream), ShellGen programs, accepted ShellRec strings -> Pos/End of every node, Fprint under "
         "each of the 256 configurations of PrintRT.tla, Expand of every word under every mode; every string up to 3 characters over an "
         "arithmetic and a pattern alphabet -> Eval, Match, Glob; all 2^14 Option values against Opts.tla.  Robust.tla validates no "
         "panic, only documented error values, Option.String as specified.  The spec adds no semantics beyond Opts here (as stated in "
         "DESIGN.md), hence exploration level.",
    note="Trusted: recover()-based isolation per call in the driver; the corpora are bounded enumerations, not all inputs.",
    technique="TLA+-enumerated corpora fed to every downstream entry point, observations validated by TLC",
    design="7/C19")

CHECKS["C11"] = dict(
    category="model_checking",
    text="Int64.tla implements two's-complement 64-bit arithmetic for TLC (32-bit integers) and is self-tested in every run against "
         "a vector table computed with Go's int64; Arith.tla is the reference evaluator (trees, short circuit, sequencing, faults, no "
         "assignment after the first fault, C-undefined cases excluded) and renderer (minimal parentheses by C precedence and "
         "associativity / fully parenthesised).  TLC enumerates all depth-1 trees over every operator and the operand set, depth-2 "
         "trees with effect / fault / overflow subtrees in every position, all pairs of binary operators in both shapes, x 4 stores; "
         "the real ExecEnv.Eval evaluates both renderings three times; ArithCheck validates value, fault <=> ArithExprError, the "
         "store afterwards and run-to-run identity.  Agreement with the eager variant of the evaluator is the known finding "
         "F-C11-eager-operands.",
    note="Trusted: Int64.tla after its self-test, Arith.tla's reading of the C rules, the exclusion predicate for C-undefined and "
         "unordered-fault cases, TLC.  Depth-3 trees are not enumerated.",
    technique="TLA+ reference evaluator over a 64-bit arithmetic library in TLA+; trees enumerated by TLC, observations validated by TLC",
    design="7/C11")

NOT_APPLICABLE = {}

ALL = ["C%02d" % i for i in range(1, 21)]
PENDING_REASON = "check not built yet in this revision (planned, see DESIGN.md section 7); not claimed"


def main():
    hooks_commits = subprocess.run(["git", "-C", "/repo", "log", "--format=%h", "--grep=^verif hooks"],
                                   stdout=subprocess.PIPE).stdout.decode().split()
    m = dict(
        version=1,
        setup_cmd="bin/setup",
        hooks=dict(guard="verif (Go build tag)",
                   enable="go build -tags verif (the harness module replaces github.com/hattya/go.sh with /repo)",
                   baseline_off_cmd="cd /repo && go test -vet=off -count=1 ./...",
                   source_commits=hooks_commits, add_only=True),
        engines=[dict(name="tlc", path="/usr/local/bin/tlc", serves_properties=sorted(CHECKS),
                      kind_free_text="TLC model checker: case generation from the specs, model-level properties, validation of observations/traces"),
                 dict(name="driver", path="harness/cmd/driver", serves_properties=sorted(CHECKS),
                      kind_free_text="Go driver built from /repo's working tree (-tags verif): runs the real API, projects results")],
        checks=[],
        notes="All checks: bin/check <id> (VERIF_TIER, VERIF_SEED honoured). Known findings: known_findings.json. Design: DESIGN.md.",
        not_applicable=[],
    )
    for pid in ALL:
        if pid in CHECKS:
            c = CHECKS[pid]
            m["checks"].append(dict(
                property_id=pid,
                quick_cmd="bin/check %s --tier quick" % pid,
                thorough_cmd="bin/check %s --tier thorough" % pid,
                evidence_file="evidence/%s.json" % pid,
                replay_cmd_template="bin/check %s --replay {path}" % pid,
                engine="tlc",
                level_claimed=dict(category=c["category"], text=c["text"], design_ref="DESIGN.md section " + c["design"]),
                level_note=c["note"],
                technique=c["technique"]))
        else:
            m["not_applicable"].append(dict(property_id=pid, reason=NOT_APPLICABLE.get(pid, PENDING_REASON)))
    with open(os.path.join(VERIF, "MANIFEST.json"), "w") as f:
        json.dump(m, f, indent=1)
    print("MANIFEST.json: %d checks, %d not applicable" % (len(m["checks"]), len(m["not_applicable"])))


if __name__ == "__main__":
    main()
