"""Program generation from specs/ShellGen.tla (shared by the parser-family checks)."""
import json
import vlib


# words that the specification spells in ASCII and the source text in other scripts
PLACEHOLDERS = {"Ux663": "\u0663", "UxE9": "\u00e9"}      # ARABIC-INDIC DIGIT THREE


def _cases(res):
    out = []
    for p in res.prints:
        if p and p[0] == "CASE":
            txt = p[1]
            for k, v in PLACEHOLDERS.items():
                txt = txt.replace(k, v)
            out.append(json.loads(txt))
    return out


def bfs(R, maxdev, maxdepth=3, name=None):
    """every derivation within the deviation budget (exhaustive)"""
    cfg = "INIT Init\nNEXT Next\nINVARIANT EmitCase\nCONSTANTS MaxDev = %d\n MaxDepth = %d\n StartSym = \"prog\"\n" % (maxdev, maxdepth)
    res = R.tlc("ShellGen", cfg, name=name or ("ShellGen-dev%d" % maxdev), timeout=3000)
    cases = _cases(res)
    if not cases:
        raise vlib.MachineryError("ShellGen produced no programs")
    return cases


def focus(R, sym, maxdev=1, maxdepth=3):
    """a focus start symbol of the grammar (hdprog, hdlay, prprog, wprog)"""
    cfg = "INIT Init\nNEXT Next\nINVARIANT EmitCase\nCONSTANTS MaxDev = %d\n MaxDepth = %d\n StartSym = \"%s\"\n" % (maxdev, maxdepth, sym)
    res = R.tlc("ShellGen", cfg, name="ShellGen-%s-dev%d" % (sym, maxdev), timeout=3000)
    return _cases(res)


def simulate(R, num, maxdev=10, maxdepth=4, workers=8, name=None):
    """random long derivations (TLC -simulate, seeded by VERIF_SEED); num per worker"""
    cfg = "INIT Init\nNEXT Next\nINVARIANT EmitCase\nCONSTANTS MaxDev = %d\n MaxDepth = %d\n StartSym = \"prog\"\n" % (maxdev, maxdepth)
    res = R.tlc("ShellGen", cfg, simulate="num=%d" % num, depth=800, workers=workers,
                name=name or "ShellGen-sim", timeout=3000)
    return _cases(res)


def dedup(cases):
    seen, out = set(), []
    for c in cases:
        if c["src"] not in seen:
            seen.add(c["src"])
            out.append(c)
    return out


def coverage(cases):
    prods, pairs = set(), set()
    for c in cases:
        d = c["drv"]
        prods.update(d)
        pairs.update(zip(d, d[1:]))
    return prods, pairs


def probes(R, drive_mode="parse"):
    """Known findings carry a probe input; a probe that still fails as described is
    reported as KNOWN-FINDING, one that no longer fails is silent."""
    kfs = [k for k in R.known_findings() if k.get("probe")]
    if not kfs:
        return
    obs, _ = R.drive(drive_mode, [dict(id=k["id"], src=k["probe"]["src"]) for k in kfs])
    byid = {o["id"]: o for o in obs}
    for k in kfs:
        o = byid[k["id"]]
        want = k["probe"].get("sk")
        still = (o["err"]["class"] != "none") if want is None else (o["sk"] != want)
        if still:
            R.known.append(k)
            print("KNOWN-FINDING: property=%s %s" % (R.prop, k["what"]), flush=True)


def deep(maxdepth=12):
    """nested chains of each compound command, multi-line, depth 1..maxdepth (the printer indents by level)"""
    kinds = {
        "grp": ("{\n", "\n}"), "sub": ("(\n", "\n)"), "if": ("if a\nthen\n", "\nfi"), "while": ("while a\ndo\n", "\ndone"),
        "for": ("for x in a\ndo\n", "\ndone"), "case": ("case a in\np)\n", "\n;;\nesac"), "cs": ("a $(\n", "\n)"),
        "fn": ("f() {\n", "\n}"),
    }
    out = []
    names = sorted(kinds)
    for d in range(1, maxdepth + 1):
        for k in names:
            o, c = kinds[k]
            out.append(dict(src=o * d + "a" + c * d + "\n", kind="deep-%s-%d" % (k, d)))
        # mixed chain
        src = "a"
        for i in range(d):
            o, c = kinds[names[i % len(names)]]
            src = o + src + c
        out.append(dict(src=src + "\n", kind="deep-mixed-%d" % d))
    return out
