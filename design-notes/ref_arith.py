"""Design-time probe: reference evaluator for C11 (C semantics on wrapped int64) vs interp.Eval.
Trees: ('n', text) | ('v', name) | ('un', op, e) | ('bin', op, l, r) | ('tern', c, a, b)
     | ('asg', op, name, e) | ('pre', op, name) | ('post', op, name)"""
import itertools, json, subprocess, sys, collections, random
M = 1 << 64
def wrap(v):
    v &= M - 1
    return v - M if v >= 1 << 63 else v
class Fault(Exception): pass
def parse_int(s):
    t = s.strip()
    try:
        neg = t.startswith('-'); u = t[1:] if t[:1] in '+-' else t
        if u[:2].lower() == '0x': v = int(u[2:], 16)
        elif len(u) > 1 and u[0] == '0': v = int(u[1:], 8)
        else:
            if not u.isdigit(): raise ValueError
            v = int(u)
        v = -v if neg else v
        if not (-(1 << 63) <= v < (1 << 63)): raise ValueError
        return v
    except ValueError:
        raise Fault('num')
def rd(store, name):
    v = store.get(name)
    if v is None or v == '': return 0
    return parse_int(v)
def cdiv(a, b):
    q = abs(a) // abs(b)
    return -q if (a < 0) != (b < 0) else q
def binop(op, a, b):
    if op == '*': return wrap(a * b)
    if op == '/':
        if b == 0: raise Fault('div')
        return wrap(cdiv(a, b))
    if op == '%':
        if b == 0: raise Fault('div')
        return wrap(a - cdiv(a, b) * b)
    if op == '+': return wrap(a + b)
    if op == '-': return wrap(a - b)
    if op == '<<':
        if b < 0: raise Fault('shift')
        return wrap(a << b) if b < 64 else None   # None: undefined in C
    if op == '>>':
        if b < 0: raise Fault('shift')
        return a >> b if b < 64 else None
    if op == '<': return int(a < b)
    if op == '>': return int(a > b)
    if op == '<=': return int(a <= b)
    if op == '>=': return int(a >= b)
    if op == '==': return int(a == b)
    if op == '!=': return int(a != b)
    if op == '&': return wrap(a & b)
    if op == '^': return wrap(a ^ b)
    if op == '|': return wrap(a | b)
    raise KeyError(op)
class Undef(Exception): pass
def ev(e, st):
    k = e[0]
    if k == 'n': return parse_int(e[1])
    if k == 'v': return rd(st, e[1])
    if k == 'un':
        v = ev(e[2], st)
        return {'+': v, '-': wrap(-v), '~': wrap(~v), '!': int(v == 0)}[e[1]]
    if k == 'bin':
        op = e[1]
        if op == '&&':
            return int(ev(e[2], st) != 0 and ev(e[3], st) != 0)
        if op == '||':
            return int(ev(e[2], st) != 0 or ev(e[3], st) != 0)
        a = ev(e[2], st); b = ev(e[3], st)
        r = binop(op, a, b)
        if r is None or (op in '/%' and a == -(1 << 63) and b == -1): raise Undef()
        return r
    if k == 'tern':
        return ev(e[2], st) if ev(e[1], st) != 0 else ev(e[3], st)
    if k == 'asg':
        op, name = e[1], e[2]
        if op == '=': v = ev(e[3], st)
        else:
            a = rd(st, name); b = ev(e[3], st)
            v = binop(op[:-1], a, b)
            if v is None: raise Undef()
        st[name] = str(v); return v
    if k == 'pre':
        v = wrap(rd(st, e[2]) + (1 if e[1] == '++' else -1)); st[e[2]] = str(v); return v
    if k == 'post':
        v = rd(st, e[2]); st[e[2]] = str(wrap(v + (1 if e[1] == '++' else -1))); return v
def render(e):
    k = e[0]
    if k == 'n': return e[1]
    if k == 'v': return e[1]
    if k == 'un': return e[1] + ' (' + render(e[2]) + ')'
    if k == 'bin': return '(' + render(e[2]) + ') ' + e[1] + ' (' + render(e[3]) + ')'
    if k == 'tern': return '(' + render(e[1]) + ') ? (' + render(e[2]) + ') : (' + render(e[3]) + ')'
    if k == 'asg': return e[2] + ' ' + e[1] + ' (' + render(e[3]) + ')'
    if k == 'pre': return e[1] + e[2]
    if k == 'post': return e[2] + e[1]
def mods(e):  # variables modified / accessed (for the "defined" filter)
    k = e[0]
    if k == 'n': return set(), set()
    if k == 'v': return set(), {e[1]}
    if k == 'un': return mods(e[2])
    if k == 'bin': a = mods(e[2]); b = mods(e[3]); return a[0] | b[0], a[1] | b[1]
    if k == 'tern': a = mods(e[1]); b = mods(e[2]); c = mods(e[3]); return a[0]|b[0]|c[0], a[1]|b[1]|c[1]
    if k == 'asg': a = mods(e[3]); return a[0] | {e[2]}, a[1] | ({e[2]} if e[1] != '=' else set())
    return {e[2]}, {e[2]}
def defined(e):
    k = e[0]
    if k in ('n', 'v', 'pre', 'post'): return True
    if k == 'un': return defined(e[2])
    if k == 'asg':
        m, a = mods(e[3]); return defined(e[3]) and e[2] not in m and (e[2] not in a or True) and not (e[2] in m)
    if k == 'tern': return all(defined(x) for x in e[1:])
    if k == 'bin':
        if not (defined(e[2]) and defined(e[3])): return False
        if e[1] in ('&&', '||'): return True   # sequence point
        ml, al = mods(e[2]); mr, ar = mods(e[3])
        return not (ml & (mr | ar)) and not (mr & (ml | al))
LEAVES = [('n','0'),('n','1'),('n','2'),('n','3'),('n','7'),('n','9223372036854775807'),('n','010'),('n','0x1F'),('n','08'),
          ('v','x'),('v','y'),('v','z'),('un','-',('n','1'))]
BIN = ['*','/','%','+','-','<<','>>','<','>','<=','>=','==','!=','&','^','|','&&','||']
ASG = ['=','*=','/=','%=','+=','-=','<<=','>>=','&=','^=','|=']
def depth1():
    for l in LEAVES: yield l
def depth2():
    L = list(depth1())
    for op in '+-~!':
        for a in L: yield ('un', op, a)
    for op in BIN:
        for a in L:
            for b in L: yield ('bin', op, a, b)
    for a in L:
        for b in L[:6]:
            for c in L[:6]: yield ('tern', a, b, c)
    for op in ASG:
        for n in 'xy':
            for a in L: yield ('asg', op, n, a)
    for op in ('++','--'):
        for n in 'xyz':
            yield ('pre', op, n); yield ('post', op, n)
STORES = [{'x':'5','y':'-9223372036854775808'}, {'x':'','y':'0x10','z':'zz'}, {'x':'-3','y':'07'}]
def run(trees):
    cases = [(t, s) for t in trees for s in STORES]
    inp = "\n".join(json.dumps({"E": render(t), "Vars": s}) for t, s in cases) + "\n"
    out = subprocess.run(["./ar2"], input=inp, capture_output=True, text=True).stdout.splitlines()
    cnt = collections.Counter(); ex = collections.defaultdict(list)
    for (t, s), l in zip(cases, out):
        o = json.loads(l); st = dict(s)
        try:
            v = ev(t, st); exp = ('ok', v, {k: v2 for k, v2 in st.items()})
        except Fault as f:
            exp = ('fault', str(f), st)
        except Undef:
            cnt['undef-skipped'] += 1; continue
        if exp[0] == 'ok':
            if o['Err'] != '': key = 'exp-ok-got-err'
            elif o['N'] != exp[1]: key = 'value'
            elif o['Store'] != {k: v for k, v in exp[2].items()}: key = 'store'
            else: key = None
        else:
            if o['Err'] == '': key = 'exp-fault-got-ok'
            elif not o['IsAE']: key = 'fault-not-ArithExprError'
            elif o['Store'] != exp[2]: key = 'store-after-fault'
            else: key = None
        cnt['total'] += 1
        if key:
            cnt[key] += 1
            if len(ex[key]) < 12: ex[key].append((render(t), s, exp[:2], o))
    for k, v in sorted(cnt.items()):
        print("==", k, v)
        for e in ex[k]: print("    ", e)
if __name__ == '__main__':
    d2 = [t for t in depth2() if defined(t)]
    print("depth2 trees", len(d2))
    run(list(depth1()) + d2)
    random.seed(1)
    D2 = d2
    d3 = []
    for _ in range(30000):
        op = random.choice(BIN + ['?', 'asg'])
        a = random.choice(D2); b = random.choice(D2)
        if op == '?': t = ('tern', a, b, random.choice(D2))
        elif op == 'asg': t = ('asg', random.choice(ASG), random.choice('xy'), a)
        else: t = ('bin', op, a, b)
        if defined(t): d3.append(t)
    print("depth3 sample", len(d3))
    run(d3)
