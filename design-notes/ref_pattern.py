import itertools, json, subprocess, sys, collections
PS = ['a','b','*','?','[',']','!','^','-','\\','.','\n']
SS = ['a','b','-',']','[','.','\n']
def parse(p):
    """-> list of items or None if malformed; ('any',), ('star',), ('chr',c), ('set',neg,members,ranges). status: ok | amb (unterminated bracket / trailing backslash) | bad"""
    items=[]; i=0; n=len(p); status='ok'
    while i<n:
        c=p[i]
        if c=='\\':
            if i+1>=n: return None,'amb'
            items.append(('chr',p[i+1])); i+=2
        elif c=='*': items.append(('star',)); i+=1
        elif c=='?': items.append(('any',)); i+=1
        elif c=='[':
            j=i+1; neg=False
            if j<n and p[j] in '!^': neg=True; j+=1
            mem=[]; first=True; closed=False
            while j<n:
                d=p[j]
                if d==']' and not first: closed=True; break
                if d=='\\' and j+1<n: d=p[j+1]; j+=1
                mem.append(d); j+=1; first=False
            if not closed: return None,'amb'
            # ranges
            members=set(); ranges=[]; k=0
            while k<len(mem):
                if k+2<len(mem) and mem[k+1]=='-':
                    lo,hi=mem[k],mem[k+2]
                    if lo>hi: return None,'bad'
                    ranges.append((lo,hi)); k+=3
                else: members.add(mem[k]); k+=1
            items.append(('set',neg,members,ranges)); i=j+1
        else: items.append(('chr',c)); i+=1
    return items,'ok'
def m(items,s,i=0,j=0):
    if i==len(items): return j==len(s)
    it=items[i]
    if it[0]=='star': return any(m(items,s,i+1,k) for k in range(j,len(s)+1))
    if j>=len(s): return False
    c=s[j]
    if it[0]=='any': return m(items,s,i+1,j+1)
    if it[0]=='chr': return it[1]==c and m(items,s,i+1,j+1)
    neg,mem,rng=it[1],it[2],it[3]
    inn = c in mem or any(lo<=c<=hi for lo,hi in rng)
    return (inn!=neg) and m(items,s,i+1,j+1)
def ref(items,s):
    pre=[k for k in range(len(s)+1) if m(items,s[:k])]
    suf=[k for k in range(len(s)+1) if m(items,s[k:])]
    return [ [s[:min(pre)]] if pre else None, [s[:max(pre)]] if pre else None,
             [s[max(suf):]] if suf else None, [s[min(suf):]] if suf else None ]
P=int(sys.argv[1]); S=int(sys.argv[2])
subs=["".join(c) for n in range(S+1) for c in itertools.product(SS,repeat=n)]
pats=["".join(c) for n in range(1,P+1) for c in itertools.product(PS,repeat=n)]
inp="\n".join(json.dumps({"P":p,"S":subs}) for p in pats)+"\n"
out=subprocess.run(["./pm2"],input=inp,capture_output=True,text=True).stdout.splitlines()
cnt=collections.Counter(); ex=collections.defaultdict(list); total=0
for p,l in zip(pats,out):
    rows=json.loads(l); items,st=parse(p)
    for s,row in zip(subs,rows):
        total+=1
        if st!='ok':
            key=('nonok-'+st, 'err' if row[0]=="ERR" else 'noerr')
            cnt[key]+=1
            if len(ex[key])<8: ex[key].append((p,s,row))
            continue
        exp=ref(items,s)
        if exp!=row:
            nl = '\n' in s
            key=('mismatch', 'newline-subject' if nl else 'other', 'ERR' if 'ERR' in row else 'val')
            cnt[key]+=1
            if len(ex[key])<25: ex[key].append((p,s,exp,row))
print("total",total)
for k,v in sorted(cnt.items()):
    print("==",k,v)
    for e in ex[k]: print("    ",e)
