#!/usr/bin/env python3
"""Reference token-level recogniser for the go.sh dialect (design-time prototype).
classify(tokens) -> ('accept', n) | ('incomplete',) | ('reject', i)
Top-level: one complete command line; a top-level newline ends it (rest unconsumed)."""
import sys

RES = {'!','{','}','for','case','esac','in','if','elif','then','else','fi','while','until','do','done'}
OPS = {';','&','&&','||','|',';;','(',')','\n'}
REDIR = {'<','>','>>','<<'}

class Reject(Exception):
    def __init__(self, i): self.i = i
class Incomplete(Exception):
    pass

class P:
    def __init__(self, toks):
        self.t = toks; self.i = 0
    def peek(self):
        return self.t[self.i] if self.i < len(self.t) else None
    def eof(self): return self.i >= len(self.t)
    def fail(self):
        if self.eof(): raise Incomplete()
        raise Reject(self.i)
    def eat(self, s):
        if self.peek() == s: self.i += 1; return True
        return False
    def expect(self, s):
        if not self.eat(s): self.fail()
    def isword(self, tok, reserved_ok=True):
        if tok is None or tok in OPS or tok in REDIR or tok.startswith('(('): return False
        if not reserved_ok and tok in RES: return False
        return True
    def linebreak(self):
        while self.peek() == '\n': self.i += 1
    def redir(self):
        # [io_number] op word ; io_number modelled as part of op token e.g. '2>'
        if self.peek() in REDIR or (self.peek() and self.peek()[:-1].isdigit() and self.peek()[-1:] in '<>' ):
            self.i += 1
            if not self.isword(self.peek()): self.fail()
            self.i += 1
            return True
        return False
    # complete command at top level
    def complete(self):
        if self.eof(): return
        if self.peek() == '\n':
            self.i += 1; return
        self.and_or()
        while self.peek() in (';', '&'):
            self.i += 1
            if self.eof() or self.peek() == '\n': break
            self.and_or()
        if self.eof(): return
        if self.peek() == '\n':
            self.i += 1; return
        raise Reject(self.i)
    def and_or(self):
        self.pipeline()
        while self.peek() in ('&&', '||'):
            self.i += 1; self.linebreak(); self.pipeline()
    def pipeline(self):
        self.eat('!')
        self.command()
        while self.peek() == '|':
            self.i += 1; self.linebreak(); self.command()
    def command(self):
        t = self.peek()
        if t is None: raise Incomplete()
        if t == '(':
            self.i += 1; self.clist({')'}); self.expect(')'); self.redirs(); return
        if t.startswith('(('):
            self.i += 1; self.redirs(); return
        if t == '{':
            self.i += 1; self.clist({'}'}); self.expect('}'); self.redirs(); return
        if t == 'if':
            self.i += 1; self.clist({'then'}); self.expect('then'); self.clist({'elif','else','fi'})
            while self.eat('elif'):
                self.clist({'then'}); self.expect('then'); self.clist({'elif','else','fi'})
            if self.eat('else'):
                self.clist({'fi'})
            self.expect('fi'); self.redirs(); return
        if t in ('while', 'until'):
            self.i += 1; self.clist({'do'}); self.expect('do'); self.clist({'done'}); self.expect('done'); self.redirs(); return
        if t == 'for':
            self.i += 1
            n = self.peek()
            if n is None: raise Incomplete()
            if not (self.isword(n) and n.replace('_','a').isalnum() and not n[0].isdigit()): raise Reject(self.i)
            self.i += 1
            if self.peek() == ';':
                self.i += 1; self.linebreak()
            else:
                had_nl = self.peek() == '\n'
                self.linebreak()
                if self.peek() == 'in':
                    self.i += 1
                    while self.isword(self.peek()): self.i += 1
                    if self.peek() == ';': self.i += 1; self.linebreak()
                    elif self.peek() == '\n': self.linebreak()
                    else: self.fail()
            self.expect('do'); self.clist({'done'}); self.expect('done'); self.redirs(); return
        if t == 'case':
            self.i += 1
            if not self.isword(self.peek()): self.fail()
            self.i += 1; self.linebreak(); self.expect('in'); self.linebreak()
            while True:
                if self.peek() == 'esac': break
                if self.eof(): raise Incomplete()
                self.eat('(')
                if not self.isword(self.peek()): self.fail()
                self.i += 1
                while self.eat('|'):
                    if not self.isword(self.peek()): self.fail()
                    self.i += 1
                self.expect(')')
                self.linebreak()
                if self.peek() not in (';;', 'esac'):
                    self.clist_body({';;', 'esac'})
                if self.eat(';;'):
                    self.linebreak(); continue
                break
            self.expect('esac'); self.redirs(); return
        # simple command / function definition
        if t in RES: raise Reject(self.i)
        nprefix = 0
        while True:
            t = self.peek()
            if t is not None and self.isassign(t): self.i += 1; nprefix += 1; continue
            if self.redir(): nprefix += 1; continue
            break
        t = self.peek()
        if self.isword(t):   # reserved words after a prefix are ordinary words
            if nprefix == 0 and t in RES: raise Reject(self.i)
            name_ok = nprefix == 0 and t.replace('_','a').isalnum() and not t[0].isdigit()
            self.i += 1
            if name_ok and self.peek() == '(':
                self.i += 1; self.expect(')'); self.linebreak()
                t2 = self.peek()
                if t2 is None: raise Incomplete()
                if not (t2 in ('(', '{', 'if', 'while', 'until', 'for', 'case') or t2.startswith('((')): raise Reject(self.i)
                self.command(); return
            while True:
                if self.isword(self.peek()): self.i += 1; continue
                if self.redir(): continue
                break
            return
        if nprefix == 0: self.fail()
    def isassign(self, t):
        if '=' not in t or t in OPS: return False
        n = t.split('=', 1)[0]
        return n != '' and n.replace('_','a').isalnum() and not n[0].isdigit()
    def redirs(self):
        while self.redir(): pass
    def clist(self, closers):
        self.linebreak()
        self.clist_body(closers)
    def clist_body(self, closers):
        # term: and_or (sep and_or)* [sep]
        self.and_or()
        while True:
            t = self.peek()
            if t in (';', '&'):
                self.i += 1; self.linebreak()
            elif t == '\n':
                self.linebreak()
            else:
                return
            if self.peek() in closers or self.peek() is None:
                return
            # a closer of some *other* construct here is an error raised by the caller's expect
            if self.peek() in RES - {'!','{','for','case','if','while','until'} or self.peek() in (')', ';;'):
                return
            self.and_or()

def classify(toks):
    p = P(toks)
    try:
        p.complete()
        return ('accept', p.i)
    except Incomplete:
        return ('incomplete',)
    except Reject as r:
        return ('reject', r.i)

if __name__ == '__main__':
    for line in sys.stdin:
        toks = [t.replace('\\n', '\n') for t in line.rstrip('\n').split(' ')] if line.strip() else []
        print(classify(toks))
