import itertools, subprocess, sys
IFS=" ,"
# segment kinds -> (source text, list of (char, quoted)) ; 'E' marks empty quoted
SEG = {
 'a': ("a", [('a',False)]),
 's': ("${s}", [(' ',False)]),
 'c': ("${c}", [(',',False)]),
 't': ("${t}", [('\t',False)]),
 'q': ("'q'", [('q',True)]),
 'S': ("' '", [(' ',True)]),
 'C': ("','", [(',',True)]),
 'e': ("''", [(None,True)]),
}
def ref(chars):
    fields=[]; cur=[]; curq=False
    def ws(ch): return ch in ' \t\n'
    # tokenise into fields per statement
    i=0; n=len(chars)
    # strip leading unquoted IFS ws
    out=[]; cur=None  # cur = [text, hasquoted]
    def start():
        nonlocal cur
        if cur is None: cur=["",False]
    pending_ws=False
    fields=[]
    state='start' # start, infield, after_ws, after_nonws
    for ch,q in chars:
        isifs = (not q) and ch is not None and ch in IFS
        if not isifs:
            if state in ('after_ws',):
                fields.append(cur); cur=None
            start()
            if ch is not None: cur[0]+=ch
            if q: cur[1]=True
            state='infield'
        elif ws(ch):
            if state=='infield': state='after_ws'
            # leading ws or ws after delimiter: ignored
        else:
            # non-ws delimiter: terminates current field (possibly empty)
            if cur is None: cur=["",False]
            fields.append(cur); cur=None
            state='after_nonws'
    if cur is not None: fields.append(cur)
    return [f[0] for f in fields if f[0]!="" or f[1]]
kinds="asctqSCe"
N=int(sys.argv[1])
words=[]
for n in range(1,N+1):
    for combo in itertools.product(kinds, repeat=n):
        words.append(combo)
src="\n".join("".join(SEG[k][0] for k in w) for w in words)+"\n"
p=subprocess.run(["./xp","-ifs",IFS,"-set","s= ","-set","c=,","-set","t=\t"],input=src,capture_output=True,text=True)
lines=p.stdout.splitlines()
bad=0
import ast as pyast
for w,l in zip(words,lines):
    got=l.split("->",1)[1].strip()
    # parse Go %q list
    import re
    items=re.findall(r'"((?:[^"\\]|\\.)*)"', got)
    items=[bytes(x,'utf8').decode('unicode_escape') for x in items]
    chars=[c for k in w for c in SEG[k][1]]
    exp=ref(chars)
    if exp!=items:
        bad+=1
        if bad<=25: print("".join(w), "src=","".join(SEG[k][0] for k in w), "exp",exp,"got",items)
print("total",len(words),"bad",bad)
