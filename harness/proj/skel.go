// Package proj projects go.sh values onto the abstract state of the TLA+
// specifications in /verif/specs (skeletons, error classes, walks).
//
// The skeleton is a flat sequence of strings, see DESIGN.md Appendix A and
// specs/ShellGrammar.tla.  Structural markers are fixed strings ("ao[",
// "]ao", ...); every terminal is "<class>:<text>".
package proj

import (
	"fmt"
	"strings"

	"github.com/hattya/go.sh/ast"
	"github.com/hattya/go.sh/printer"
)

// Skel is the result of projecting a list of commands.
type Skel struct {
	Sk     []string // skeleton without shape tags
	Shapes []string // one per command slot, in pre-order: List, AndOrList, Pipeline, Cmd
	Hd     []HdObs  // here-documents in source order, printed back to text
}

// HdObs is the text of one here-document as found in the AST.
type HdObs struct {
	Op    string `json:"op"`
	Body  string `json:"body"`
	Delim string `json:"dl"`
	Set   bool   `json:"set"` // Redir.Heredoc / Delim were attached at all
}

type skb struct {
	sk     []string
	shapes []string
	hd     []HdObs
}

func (b *skb) add(s ...string) { b.sk = append(b.sk, s...) }

// Commands projects a command list (a compound list or the result of
// ParseCommands).
func Commands(cmds []ast.Command) (s Skel, err error) {
	defer func() {
		if e := recover(); e != nil {
			err = fmt.Errorf("projection panic: %v", e)
		}
	}()
	b := &skb{}
	b.clist(cmds)
	if b.hd == nil {
		b.hd = []HdObs{}
	}
	return Skel{Sk: nonNil(b.sk), Shapes: nonNil(b.shapes), Hd: b.hd}, nil
}

func printWord(w ast.Word) string {
	var sb strings.Builder
	if err := printer.Fprint(&sb, w); err != nil {
		return "PRINT-ERROR: " + err.Error()
	}
	return sb.String()
}

// Word projects a single word.
func Word(w ast.Word) (sk []string, err error) {
	defer func() {
		if e := recover(); e != nil {
			err = fmt.Errorf("projection panic: %v", e)
		}
	}()
	b := &skb{}
	b.word(w)
	return nonNil(b.sk), nil
}

func nonNil(s []string) []string {
	if s == nil {
		return []string{}
	}
	return s
}

func (b *skb) clist(cmds []ast.Command) {
	for _, c := range cmds {
		b.slot(c)
	}
}

func (b *skb) slot(c ast.Command) {
	b.add("ln[")
	switch c := c.(type) {
	case ast.List:
		b.shapes = append(b.shapes, "List")
		for _, ao := range c {
			b.ao(ao)
		}
	case *ast.AndOrList:
		b.shapes = append(b.shapes, "AndOrList")
		b.ao(c)
	case *ast.Pipeline:
		b.shapes = append(b.shapes, "Pipeline")
		b.add("ao[")
		b.pl(c)
		b.add("]ao")
	case *ast.Cmd:
		b.shapes = append(b.shapes, "Cmd")
		b.add("ao[", "pl[")
		b.cmd(c)
		b.add("]pl", "]ao")
	case nil:
		b.shapes = append(b.shapes, "nil")
		b.add("NIL")
	default:
		panic(fmt.Sprintf("unknown command %T", c))
	}
	b.add("]ln")
}

func (b *skb) ao(c *ast.AndOrList) {
	b.add("ao[")
	b.pl(c.Pipeline)
	for _, x := range c.List {
		b.add("op:" + x.Op)
		b.pl(x.Pipeline)
	}
	if c.Sep != "" || !c.SepPos.IsZero() {
		b.add("sep:" + c.Sep)
	}
	b.add("]ao")
}

func (b *skb) pl(c *ast.Pipeline) {
	b.add("pl[")
	if !c.Bang.IsZero() {
		b.add("op:!")
	}
	b.cmd(c.Cmd)
	for _, x := range c.List {
		b.add("op:" + x.Op)
		b.cmd(x.Cmd)
	}
	b.add("]pl")
}

func (b *skb) cmd(c *ast.Cmd) {
	b.add("c[")
	switch x := c.Expr.(type) {
	case *ast.SimpleCmd:
		b.add("simple[")
		for _, a := range x.Assigns {
			b.add("as[", "name:"+a.Name.Value, "asop:"+a.Op)
			b.word(a.Value)
			b.add("]as")
		}
		for _, w := range x.Args {
			b.word(w)
		}
		b.add("]simple")
	case *ast.Subshell:
		b.add("sub[")
		b.clist(x.List)
		b.add("]sub")
	case *ast.Group:
		b.add("grp[")
		b.clist(x.List)
		b.add("]grp")
	case *ast.ArithEval:
		b.add("arith[")
		b.arith(x.Expr)
		b.add("]arith")
	case *ast.ForClause:
		b.add("for[", "name:"+x.Name.Value)
		if !x.In.IsZero() {
			b.add("in[")
			for _, w := range x.Items {
				b.word(w)
			}
			b.add("]in")
		} else if len(x.Items) != 0 {
			b.add("ITEMS-WITHOUT-IN")
		}
		if !x.Semicolon.IsZero() {
			b.add("forsemi")
		}
		b.add("do[")
		b.clist(x.List)
		b.add("]do", "]for")
	case *ast.CaseClause:
		b.add("case[")
		b.word(x.Word)
		for _, ci := range x.Items {
			b.add("item[")
			if !ci.Lparen.IsZero() {
				b.add("op:(")
			}
			b.add("pats[")
			for _, p := range ci.Patterns {
				b.word(p)
			}
			b.add("]pats")
			b.clist(ci.List)
			if !ci.Break.IsZero() {
				b.add("op:;;")
			}
			b.add("]item")
		}
		b.add("]case")
	case *ast.IfClause:
		b.add("if[", "cond[")
		b.clist(x.Cond)
		b.add("]cond", "then[")
		b.clist(x.List)
		b.add("]then")
		for _, e := range x.Else {
			switch e := e.(type) {
			case *ast.ElifClause:
				b.add("elif[", "cond[")
				b.clist(e.Cond)
				b.add("]cond", "then[")
				b.clist(e.List)
				b.add("]then", "]elif")
			case *ast.ElseClause:
				b.add("else[")
				b.clist(e.List)
				b.add("]else")
			default:
				panic(fmt.Sprintf("unknown else part %T", e))
			}
		}
		b.add("]if")
	case *ast.WhileClause:
		b.add("while[", "cond[")
		b.clist(x.Cond)
		b.add("]cond", "do[")
		b.clist(x.List)
		b.add("]do", "]while")
	case *ast.UntilClause:
		b.add("until[", "cond[")
		b.clist(x.Cond)
		b.add("]cond", "do[")
		b.clist(x.List)
		b.add("]do", "]until")
	case *ast.FuncDef:
		b.add("fn[", "name:"+x.Name.Value)
		switch body := x.Body.(type) {
		case *ast.Cmd:
			b.cmd(body)
		default:
			panic(fmt.Sprintf("function body %T", body))
		}
		b.add("]fn")
	case nil:
		b.add("NILEXPR")
	default:
		panic(fmt.Sprintf("unknown expr %T", x))
	}
	for _, r := range c.Redirs {
		b.redir(r)
	}
	b.add("]c")
}

func (b *skb) redir(r *ast.Redir) {
	b.add("r[")
	if r.N != nil {
		b.add("n:" + r.N.Value)
	}
	b.add("rop:" + r.Op)
	b.word(r.Word)
	if r.Op == "<<" || r.Op == "<<-" {
		b.hd = append(b.hd, HdObs{Op: r.Op, Body: printWord(r.Heredoc), Delim: printWord(r.Delim), Set: r.Heredoc != nil || r.Delim != nil})
	}
	if r.Heredoc != nil || r.Delim != nil {
		b.add("body[")
		b.parts(mergeLits(r.Heredoc))
		b.add("]body", "delim[")
		b.parts(mergeLits(r.Delim))
		b.add("]delim")
	}
	b.add("]r")
}

func (b *skb) word(w ast.Word) {
	b.add("w[")
	b.parts(w)
	b.add("]w")
}

// arith projects the expression word of (( )) / $(( )): the lexer cuts
// literals at blanks, the printer re-inserts single blanks, so literal
// boundaries inside are kept as they are.
func (b *skb) arith(w ast.Word) {
	b.add("w[")
	b.parts(w)
	b.add("]w")
}

func (b *skb) parts(w ast.Word) {
	for _, p := range w {
		switch p := p.(type) {
		case *ast.Lit:
			b.add("lit:" + p.Value)
		case *ast.Quote:
			switch p.Tok {
			case `\`:
				if len(p.Value) == 1 {
					if l, ok := p.Value[0].(*ast.Lit); ok {
						b.add("bs:" + l.Value)
						break
					}
				}
				b.add("bs[")
				b.parts(p.Value)
				b.add("]bs")
			case `'`:
				b.add("sq[")
				b.parts(p.Value)
				b.add("]sq")
			case `"`:
				b.add("dq[")
				b.parts(p.Value)
				b.add("]dq")
			default:
				b.add("QUOTE?" + p.Tok)
			}
		case *ast.ParamExp:
			b.add("pe[")
			if p.Braces {
				b.add("braces")
			}
			if p.Name != nil {
				b.add("name:" + p.Name.Value)
			}
			if p.Op != "" {
				b.add("peop:" + p.Op)
			}
			if p.Word != nil {
				b.word(p.Word)
			}
			b.add("]pe")
		case *ast.CmdSubst:
			if p.Dollar {
				b.add("cs$[")
			} else {
				b.add("cs`[")
			}
			b.clist(p.List)
			b.add("]cs")
		case *ast.ArithExp:
			b.add("ae[")
			b.arith(p.Expr)
			b.add("]ae")
		case nil:
			b.add("NILPART")
		default:
			panic(fmt.Sprintf("unknown word part %T", p))
		}
	}
}

// mergeLits returns w with runs of adjacent literals merged into one
// (here-document bodies are compared modulo literal boundaries).
func mergeLits(w ast.Word) ast.Word {
	var out ast.Word
	for _, p := range w {
		if l, ok := p.(*ast.Lit); ok && len(out) != 0 {
			if prev, ok := out[len(out)-1].(*ast.Lit); ok {
				out[len(out)-1] = &ast.Lit{ValuePos: prev.ValuePos, Value: prev.Value + l.Value}
				continue
			}
		}
		if l, ok := p.(*ast.Lit); ok {
			p = &ast.Lit{ValuePos: l.ValuePos, Value: l.Value}
		}
		out = append(out, p)
	}
	return out
}

// ErrInfo is the projection of an error value.
type ErrInfo struct {
	Class string `json:"class"` // none, syntax, read, arith, param, nomatch, other
	Name  string `json:"name,omitempty"`
	Line  int    `json:"line,omitempty"`
	Col   int    `json:"col,omitempty"`
	Msg   string `json:"msg,omitempty"`
}
