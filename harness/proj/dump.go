package proj

import (
	"fmt"
	"reflect"
	"strings"
)

// Dump renders a value completely (following pointers, including
// unexported position fields) so that two dumps are equal exactly when
// the values are observably equal.  Used for the purity clause of C18
// and the read-only clauses of C20.
func Dump(v interface{}) string {
	var b strings.Builder
	dump(&b, reflect.ValueOf(v), 0)
	return b.String()
}

func dump(b *strings.Builder, v reflect.Value, depth int) {
	if depth > 200 {
		b.WriteString("<deep>")
		return
	}
	if !v.IsValid() {
		b.WriteString("<nil>")
		return
	}
	switch v.Kind() {
	case reflect.Ptr, reflect.Interface:
		if v.IsNil() {
			b.WriteString("nil")
			return
		}
		if v.Kind() == reflect.Ptr {
			b.WriteByte('&')
		} else {
			fmt.Fprintf(b, "<%s>", v.Elem().Type())
		}
		dump(b, v.Elem(), depth+1)
	case reflect.Struct:
		b.WriteString(v.Type().Name())
		b.WriteByte('{')
		for i := 0; i < v.NumField(); i++ {
			if i > 0 {
				b.WriteByte(' ')
			}
			b.WriteString(v.Type().Field(i).Name)
			b.WriteByte(':')
			dump(b, v.Field(i), depth+1)
		}
		b.WriteByte('}')
	case reflect.Slice, reflect.Array:
		if v.Kind() == reflect.Slice && v.IsNil() {
			b.WriteString("nil[]")
			return
		}
		b.WriteByte('[')
		for i := 0; i < v.Len(); i++ {
			if i > 0 {
				b.WriteByte(' ')
			}
			dump(b, v.Index(i), depth+1)
		}
		b.WriteByte(']')
	case reflect.Map:
		keys := v.MapKeys()
		ks := make([]string, len(keys))
		m := map[string]reflect.Value{}
		for i, k := range keys {
			ks[i] = fmt.Sprint(k)
			m[ks[i]] = v.MapIndex(k)
		}
		sortStrings(ks)
		b.WriteString("map[")
		for _, k := range ks {
			b.WriteString(k)
			b.WriteByte(':')
			dump(b, m[k], depth+1)
			b.WriteByte(' ')
		}
		b.WriteByte(']')
	case reflect.String:
		fmt.Fprintf(b, "%q", v.String())
	case reflect.Int, reflect.Int8, reflect.Int16, reflect.Int32, reflect.Int64:
		fmt.Fprintf(b, "%d", v.Int())
	case reflect.Uint, reflect.Uint8, reflect.Uint16, reflect.Uint32, reflect.Uint64, reflect.Uintptr:
		fmt.Fprintf(b, "%d", v.Uint())
	case reflect.Bool:
		fmt.Fprintf(b, "%t", v.Bool())
	default:
		fmt.Fprintf(b, "<%s>", v.Kind())
	}
}

func sortStrings(s []string) {
	for i := 1; i < len(s); i++ {
		for j := i; j > 0 && s[j] < s[j-1]; j-- {
			s[j], s[j-1] = s[j-1], s[j]
		}
	}
}
