package main

import (
	"bufio"
	"encoding/json"
)

func init() {
	modes["int64vec"] = int64vecMode
}

func bytes64(v int64) []int {
	u := uint64(v)
	out := make([]int, 8)
	for i := 0; i < 8; i++ {
		out[i] = int(u >> (8 * uint(i)) & 0xff)
	}
	return out
}

// int64vecMode prints a vector table computed with Go's int64: the
// self-test of specs/Int64.tla checks its operators against it.
func int64vecMode(in *bufio.Scanner, out *json.Encoder) error {
	pool := []int64{0, 1, 2, 3, 7, -1, -2, -7, 9223372036854775807, -9223372036854775808, 9223372036854775806, -9223372036854775807,
		255, 256, 65535, 65536, 1 << 31, 1 << 32, -(1 << 31), 12345678901234, -98765432109876, 1 << 62, 3037000500, 1000000007}
	type vec struct {
		Op string `json:"op"`
		A  []int  `json:"a"`
		B  []int  `json:"b"`
		N  int    `json:"n"`
		R  []int  `json:"r"`
	}
	b2i := func(b bool) int64 {
		if b {
			return 1
		}
		return 0
	}
	for _, a := range pool {
		for _, b := range pool {
			emit := func(op string, r int64) { out.Encode(vec{op, bytes64(a), bytes64(b), 0, bytes64(r)}) }
			emit("add", a+b)
			emit("sub", a-b)
			emit("mul", a*b)
			emit("and", a&b)
			emit("or", a|b)
			emit("xor", a^b)
			emit("lt", b2i(a < b))
			emit("le", b2i(a <= b))
			if b != 0 && !(a == -9223372036854775808 && b == -1) {
				emit("div", a/b)
				emit("rem", a%b)
			}
		}
		for _, n := range []int{0, 1, 7, 8, 9, 31, 32, 33, 62, 63} {
			out.Encode(vec{"shl", bytes64(a), bytes64(0), n, bytes64(a << uint(n))})
			out.Encode(vec{"shr", bytes64(a), bytes64(0), n, bytes64(a >> uint(n))})
		}
		out.Encode(vec{"neg", bytes64(a), bytes64(0), 0, bytes64(-a)})
		out.Encode(vec{"not", bytes64(a), bytes64(0), 0, bytes64(^a)})
	}
	return nil
}
