package main

import (
	"bufio"
	"encoding/json"

	"github.com/hattya/go.sh/ast"
	"github.com/hattya/go.sh/interp"
)

func init() {
	modes["param"] = paramMode
}

type paramCase struct {
	P       string   `json:"p"`
	Vst     string   `json:"vst"`
	Args    []string `json:"args"`
	Op      string   `json:"op"`
	W       string   `json:"w"`
	Q       string   `json:"q"`
	IFS     string   `json:"ifs"`
	NoUnset bool     `json:"nounset"`
}

type paramObsIn struct {
	Err    string     `json:"err"`
	Fields [][]string `json:"fields"`
	YSet   bool       `json:"yset"`
	VAfter string     `json:"vafter"`
	Panic  string     `json:"panic"`
	Msg    string     `json:"msg,omitempty"`
}

type paramObs struct {
	C   paramCase  `json:"c"`
	Obs paramObsIn `json:"obs"`
}

func paramValue(s string) string {
	switch s {
	case "x":
		return "x"
	case "xy":
		return "x y"
	case "yz":
		return "y,z"
	case "w":
		return "w"
	case "uv":
		return "u v"
	case "s":
		return "s"
	case "mb":
		return "n\u00e9" // two characters, three bytes
	case "bs2":
		return "a\\\\"
	}
	return ""
}

func paramName(v string, set bool) string {
	if !set {
		return "unset"
	}
	for _, n := range []string{"x", "xy", "yz", "w", "uv", "s", "mb", "bs2"} {
		if paramValue(n) == v {
			return n
		}
	}
	if v == "" {
		return "null"
	}
	return "other:" + v
}

func runParam(c paramCase) (o paramObs) {
	o.C = c
	o.Obs.Fields = [][]string{}
	defer func() {
		if e := recover(); e != nil {
			o.Obs.Panic = panicString(e)
		}
	}()
	args := make([]string, len(c.Args))
	for i, a := range c.Args {
		args[i] = paramValue(a)
	}
	env := interp.NewExecEnv("sh", args...)
	if c.P != "-" {
		env.Opts |= interp.NoGlob // no pathname expansion of the results; for $- no option is set (it is null then)
	}
	if c.NoUnset {
		env.Opts |= interp.NoUnset
	}
	env.Unset("v")
	env.Unset("y")
	switch c.Vst {
	case "unset":
	case "null":
		env.Set("v", "")
	default:
		env.Set("v", paramValue(c.Vst))
	}
	switch c.IFS {
	case "comma":
		env.Set("IFS", ",")
	case "empty":
		env.Set("IFS", "")
	case "mb":
		env.Set("IFS", "\u00e9,") // the first character takes two bytes
	case "digit":
		env.Set("IFS", "12") // the digits of the lengths and counts
	default:
		env.Unset("IFS")
	}
	pname := c.P
	if pname == "big" {
		pname = "99999999999999999999"
	}
	pe := &ast.ParamExp{Braces: true, Name: &ast.Lit{Value: pname}}
	switch c.Op {
	case "":
	case "len":
		pe.Op = "#"
	default:
		pe.Op = c.Op
		var w ast.Word
		switch c.W {
		case "w", "uv":
			w = ast.Word{&ast.Lit{Value: paramValue(c.W)}}
			if c.Q == "wq" {
				w = ast.Word{&ast.Quote{Tok: "'", Value: w}}
			}
		case "side":
			w = ast.Word{&ast.ParamExp{Braces: true, Name: &ast.Lit{Value: "y"}, Op: ":=", Word: ast.Word{&ast.Lit{Value: "s"}}}}
		case "at":
			w = ast.Word{&ast.Quote{Tok: `"`, Value: ast.Word{&ast.ParamExp{Name: &ast.Lit{Value: "@"}}}}}
		case "pat":
			w = ast.Word{&ast.Lit{Value: "?"}}
		case "patbs":
			w = ast.Word{&ast.Quote{Tok: "'", Value: ast.Word{&ast.Lit{Value: "\\"}}}}
		}
		pe.Word = w
	}
	word := ast.Word{pe}
	if c.Q == "dq" {
		word = ast.Word{&ast.Quote{Tok: `"`, Value: word}}
	}
	fields, err := env.Expand(word, 0)
	ei := errInfo(err)
	o.Obs.Err = ei.Class
	o.Obs.Msg = ei.Msg
	for _, f := range fields {
		o.Obs.Fields = append(o.Obs.Fields, toSymbols(f))
	}
	_, o.Obs.YSet = env.Get("y")
	v, set := env.Get("v")
	o.Obs.VAfter = paramName(v.Value, set)
	return
}

func paramMode(in *bufio.Scanner, out *json.Encoder) error {
	for in.Scan() {
		var c paramCase
		if err := json.Unmarshal(in.Bytes(), &c); err != nil {
			return err
		}
		if err := out.Encode(runParam(c)); err != nil {
			return err
		}
	}
	return in.Err()
}
