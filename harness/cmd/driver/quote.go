package main

import (
	"bufio"
	"encoding/json"
	"os"
	"path/filepath"

	"github.com/hattya/go.sh/ast"
	"github.com/hattya/go.sh/interp"
	"github.com/hattya/go.sh/parser"
	"github.com/hattya/go.sh/pattern"
)

func init() {
	modes["quote"] = quoteMode
}

type quoteCase struct {
	S    []string   `json:"s"`
	Sq   []string   `json:"sq"`
	Dq   []string   `json:"dq"`
	Bs   []string   `json:"bs"`
	Mix  []string   `json:"mix"`
	Pert [][]string `json:"pert"` // perturbations of S: strings the pattern must not match
}

type quoteObs struct {
	S     []string                         `json:"s"`
	Text  map[string]string                `json:"text"`
	Obs   map[string]map[string][][]string `json:"obs"`
	Panic string                           `json:"panic"`
}

var quoteModes = []struct {
	name string
	mode interp.ExpMode
}{
	{"default", 0}, {"arith", interp.Arith}, {"assign", interp.Assign}, {"literal", interp.Literal}, {"quote", interp.Quote},
	{"pattern", interp.Pattern},
}

// quoteEnv is an environment chosen to make any expansion of the quoted
// text visible.
func quoteEnv() *interp.ExecEnv {
	env := interp.NewExecEnv("sh", "P1", "P 2", "*")
	env.Set("IFS", "a :\t\n*$")
	env.Set("HOME", "/HOME")
	env.Set("a", "VAR")
	env.Set("v", "VAR")
	return env
}

func runQuote(c quoteCase) (o quoteObs) {
	o = quoteObs{S: c.S, Text: map[string]string{}, Obs: map[string]map[string][][]string{}}
	defer func() {
		if e := recover(); e != nil {
			o.Panic = panicString(e)
		}
	}()
	for name, spelled := range map[string][]string{"sq": c.Sq, "dq": c.Dq, "bs": c.Bs, "mix": c.Mix} {
		text := symbols(spelled)
		o.Text[name] = text
		per := map[string][][]string{}
		cmd, _, err := parser.ParseCommand("<verif>", "x "+text)
		var w ast.Word
		if err == nil {
			if c, ok := cmd.(*ast.Cmd); ok {
				if sc, ok := c.Expr.(*ast.SimpleCmd); ok && len(sc.Args) == 2 {
					w = sc.Args[1]
				}
			}
		}
		per["realmatch"] = [][]string{{"none"}}
		for _, m := range quoteModes {
			if w == nil {
				msg := "no single word"
				if err != nil {
					msg = err.Error()
				}
				per[m.name] = [][]string{{"ERROR", msg}}
				continue
			}
			fs, err := quoteEnv().Expand(w, m.mode)
			if err != nil {
				per[m.name] = [][]string{{"ERROR", err.Error()}}
				continue
			}
			out := [][]string{}
			for _, f := range fs {
				out = append(out, toSymbols(f))
			}
			per[m.name] = out
			if m.name == "pattern" && len(fs) == 1 {
				// the real matcher on the pattern: the whole of s, and none of the perturbations
				hit := []string{}
				// the pattern matches the whole of x iff the largest prefix it matches is x
				whole := func(x string) bool {
					g, err := pattern.Match([]string{fs[0]}, pattern.Prefix|pattern.Largest, x)
					return err == nil && g == x
				}
				if whole(symbols(c.S)) {
					hit = append(hit, "self")
				}
				for _, p := range c.Pert {
					if x := symbols(p); x != "" && whole(x) {
						hit = append(hit, "pert:"+x)
					}
				}
				per["realmatch"] = [][]string{hit}
			}
		}
		o.Obs[name] = per
	}
	return
}

func quoteMode(in *bufio.Scanner, out *json.Encoder) error {
	// a scratch directory holding files named like the strings under test
	dir, err := os.MkdirTemp("", "verif-quote-")
	if err != nil {
		return err
	}
	defer os.RemoveAll(dir)
	os.Mkdir(filepath.Join(dir, "a"), 0o700)
	for _, n := range []string{"a/a", "a/*", "aa", "b", "*", "?", "[", "~", "$a", "a b", "'", "x", "=", "\\"} {
		os.WriteFile(filepath.Join(dir, n), nil, 0o600)
	}
	if err := os.Chdir(dir); err != nil {
		return err
	}
	for in.Scan() {
		var c quoteCase
		if err := json.Unmarshal(in.Bytes(), &c); err != nil {
			return err
		}
		if err := out.Encode(runQuote(c)); err != nil {
			return err
		}
	}
	return in.Err()
}
