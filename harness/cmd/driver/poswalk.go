package main

import (
	"bufio"
	"encoding/json"
	"strings"

	"github.com/hattya/go.sh/ast"
	"github.com/hattya/go.sh/parser"

	"verif/harness/proj"
)

func init() {
	modes["poswalk"] = poswalkMode
}

// A node claim: Pos()/End() of one AST node with its place in the tree.
type nodeClaim struct {
	Kind     string `json:"kind"`
	Pos      [2]int `json:"pos"`
	End      [2]int `json:"end"`
	Parent   int    `json:"parent"` // index+1 of the parent claim, 0 for roots
	Group    string `json:"group"`  // siblings of one homogeneous list share a group
	Ord      int    `json:"ord"`
	Hd       bool   `json:"hd"` // the subtree holds a here-document (its text is not contiguous)
	NonEmpty bool   `json:"nonempty"`
}

// A field claim: a recorded position and the source text found there.
type fieldClaim struct {
	Field string   `json:"field"`
	Pos   [2]int   `json:"pos"`
	Text  []string `json:"text"` // up to 8 characters of the source at that line:column
	Want  []string `json:"want"` // the node's own spelling (operator, name, literal), or empty
}

type poswalkObs struct {
	ID       string       `json:"id"`
	Src      string       `json:"src"`
	Err      proj.ErrInfo `json:"err"`
	LineLens []int        `json:"linelens"` // characters per line
	Nodes    []nodeClaim  `json:"nodes"`
	Fields   []fieldClaim `json:"fields"`
	Panic    string       `json:"panic"`
}

type walker struct {
	lines  [][]rune
	nodes  []nodeClaim
	fields []fieldClaim
}

func p2(p ast.Pos) [2]int { return [2]int{p.Line(), p.Col()} }

func chars(s string) []string {
	out := []string{}
	for _, r := range s {
		out = append(out, string(r))
	}
	return out
}

func (w *walker) textAt(p ast.Pos) []string {
	out := []string{}
	l, c := p.Line(), p.Col()
	if l < 1 || l > len(w.lines) || c < 1 || c > len(w.lines[l-1])+1 {
		return out
	}
	c--
	for len(out) < 8 && l <= len(w.lines) {
		line := w.lines[l-1]
		if c < len(line) {
			out = append(out, string(line[c]))
			c++
		} else if l < len(w.lines) {
			out = append(out, "\n")
			l++
			c = 0
		} else {
			break
		}
	}
	return out
}

func (w *walker) field(name string, p ast.Pos, want string) {
	wc := chars(want)
	if len(wc) > 8 {
		wc = wc[:8]
	}
	w.fields = append(w.fields, fieldClaim{Field: name, Pos: p2(p), Text: w.textAt(p), Want: wc})
}

// optional field: zero means absent
func (w *walker) optField(name string, p ast.Pos, want string) {
	if !p.IsZero() {
		w.field(name, p, want)
	}
}

func (w *walker) node(kind string, n ast.Node, parent int, group string, ord int) int {
	w.nodes = append(w.nodes, nodeClaim{Kind: kind, Pos: p2(n.Pos()), End: p2(n.End()), Parent: parent, Group: group, Ord: ord, NonEmpty: true})
	return len(w.nodes)
}

func (w *walker) markHd(i int) {
	for i > 0 {
		w.nodes[i-1].Hd = true
		i = w.nodes[i-1].Parent
	}
}

func grp(parent int, name string) string {
	return name + "@" + itoa(parent)
}

func itoa(i int) string {
	return strings.TrimSpace(strings.Replace(jsonInt(i), "\n", "", -1))
}

func jsonInt(i int) string {
	b, _ := json.Marshal(i)
	return string(b)
}

func (w *walker) commands(cmds []ast.Command, parent int, name string) {
	for i, c := range cmds {
		w.command(c, parent, grp(parent, name), i)
	}
}

func (w *walker) command(c ast.Command, parent int, group string, ord int) {
	switch c := c.(type) {
	case ast.List:
		me := w.node("List", c, parent, group, ord)
		for i, ao := range c {
			w.andOrList(ao, me, grp(me, "list"), i)
		}
	case *ast.AndOrList:
		w.andOrList(c, parent, group, ord)
	case *ast.Pipeline:
		w.pipeline(c, parent, group, ord)
	case *ast.Cmd:
		w.cmd(c, parent, group, ord)
	}
}

func (w *walker) andOrList(c *ast.AndOrList, parent int, group string, ord int) {
	me := w.node("AndOrList", c, parent, group, ord)
	w.pipeline(c.Pipeline, me, grp(me, "first"), 0)
	for i, ao := range c.List {
		a := w.node("AndOr", ao, me, grp(me, "andor"), i)
		w.field("AndOr.OpPos", ao.OpPos, ao.Op)
		w.pipeline(ao.Pipeline, a, grp(a, "pl"), 0)
	}
	w.optField("AndOrList.SepPos", c.SepPos, c.Sep)
}

func (w *walker) pipeline(c *ast.Pipeline, parent int, group string, ord int) {
	me := w.node("Pipeline", c, parent, group, ord)
	w.optField("Pipeline.Bang", c.Bang, "")
	w.cmd(c.Cmd, me, grp(me, "first"), 0)
	for i, p := range c.List {
		a := w.node("Pipe", p, me, grp(me, "pipe"), i)
		w.field("Pipe.OpPos", p.OpPos, p.Op)
		w.cmd(p.Cmd, a, grp(a, "cmd"), 0)
	}
}

func (w *walker) cmd(c *ast.Cmd, parent int, group string, ord int) {
	me := w.node("Cmd", c, parent, group, ord)
	switch x := c.Expr.(type) {
	case *ast.SimpleCmd:
		if len(x.Assigns)+len(x.Args) != 0 {
			s := w.node("SimpleCmd", x, me, grp(me, "expr"), 0)
			for i, a := range x.Assigns {
				an := w.node("Assign", a, s, grp(s, "assigns"), i)
				w.lit("Assign.Name", a.Name, an)
				w.word(a.Value, an, grp(an, "value"), 0)
			}
			for i, a := range x.Args {
				w.word(a, s, grp(s, "args"), i)
			}
		}
	case *ast.Subshell:
		s := w.node("Subshell", x, me, grp(me, "expr"), 0)
		w.field("Subshell.Lparen", x.Lparen, "")
		w.commands(x.List, s, "list")
		w.field("Subshell.Rparen", x.Rparen, "")
	case *ast.Group:
		s := w.node("Group", x, me, grp(me, "expr"), 0)
		w.field("Group.Lbrace", x.Lbrace, "")
		w.commands(x.List, s, "list")
		w.field("Group.Rbrace", x.Rbrace, "")
	case *ast.ArithEval:
		s := w.node("ArithEval", x, me, grp(me, "expr"), 0)
		w.field("ArithEval.Left", x.Left, "")
		w.word(x.Expr, s, grp(s, "expr"), 0)
		w.field("ArithEval.Right", x.Right, "")
	case *ast.ForClause:
		s := w.node("ForClause", x, me, grp(me, "expr"), 0)
		w.field("ForClause.For", x.For, "")
		w.lit("ForClause.Name", x.Name, s)
		w.optField("ForClause.In", x.In, "")
		for i, it := range x.Items {
			w.word(it, s, grp(s, "items"), i)
		}
		w.optField("ForClause.Semicolon", x.Semicolon, "")
		w.field("ForClause.Do", x.Do, "")
		w.commands(x.List, s, "list")
		w.field("ForClause.Done", x.Done, "")
	case *ast.CaseClause:
		s := w.node("CaseClause", x, me, grp(me, "expr"), 0)
		w.field("CaseClause.Case", x.Case, "")
		w.word(x.Word, s, grp(s, "word"), 0)
		w.field("CaseClause.In", x.In, "")
		for i, ci := range x.Items {
			in := w.node("CaseItem", ci, s, grp(s, "items"), i)
			w.optField("CaseItem.Lparen", ci.Lparen, "")
			for j, p := range ci.Patterns {
				w.word(p, in, grp(in, "patterns"), j)
			}
			w.field("CaseItem.Rparen", ci.Rparen, "")
			w.commands(ci.List, in, "list")
			w.optField("CaseItem.Break", ci.Break, "")
		}
		w.field("CaseClause.Esac", x.Esac, "")
	case *ast.IfClause:
		s := w.node("IfClause", x, me, grp(me, "expr"), 0)
		w.field("IfClause.If", x.If, "")
		w.commands(x.Cond, s, "cond")
		w.field("IfClause.Then", x.Then, "")
		w.commands(x.List, s, "list")
		for i, e := range x.Else {
			switch e := e.(type) {
			case *ast.ElifClause:
				en := w.node("ElifClause", e, s, grp(s, "else"), i)
				w.field("ElifClause.Elif", e.Elif, "")
				w.commands(e.Cond, en, "cond")
				w.field("ElifClause.Then", e.Then, "")
				w.commands(e.List, en, "list")
			case *ast.ElseClause:
				en := w.node("ElseClause", e, s, grp(s, "else"), i)
				w.field("ElseClause.Else", e.Else, "")
				w.commands(e.List, en, "list")
			}
		}
		w.field("IfClause.Fi", x.Fi, "")
	case *ast.WhileClause:
		s := w.node("WhileClause", x, me, grp(me, "expr"), 0)
		w.field("WhileClause.While", x.While, "")
		w.commands(x.Cond, s, "cond")
		w.field("WhileClause.Do", x.Do, "")
		w.commands(x.List, s, "list")
		w.field("WhileClause.Done", x.Done, "")
	case *ast.UntilClause:
		s := w.node("UntilClause", x, me, grp(me, "expr"), 0)
		w.field("UntilClause.Until", x.Until, "")
		w.commands(x.Cond, s, "cond")
		w.field("UntilClause.Do", x.Do, "")
		w.commands(x.List, s, "list")
		w.field("UntilClause.Done", x.Done, "")
	case *ast.FuncDef:
		s := w.node("FuncDef", x, me, grp(me, "expr"), 0)
		w.lit("FuncDef.Name", x.Name, s)
		w.field("FuncDef.Lparen", x.Lparen, "")
		w.field("FuncDef.Rparen", x.Rparen, "")
		w.command(x.Body, s, grp(s, "body"), 0)
	}
	for i, r := range c.Redirs {
		rn := w.node("Redir", r, me, grp(me, "redirs"), i)
		if r.N != nil {
			w.lit("Redir.N", r.N, rn)
		}
		w.field("Redir.OpPos", r.OpPos, r.Op)
		w.word(r.Word, rn, grp(rn, "word"), 0)
		if r.Op == "<<" || r.Op == "<<-" {
			w.markHd(rn)
			w.word(r.Heredoc, rn, grp(rn, "heredoc"), 0)
			w.word(r.Delim, rn, grp(rn, "delim"), 0)
		}
	}
}

func (w *walker) lit(field string, l *ast.Lit, parent int) {
	if l == nil {
		return
	}
	w.node("Lit", l, parent, grp(parent, field), 0)
	w.field(field, l.ValuePos, l.Value)
}

func (w *walker) word(x ast.Word, parent int, group string, ord int) {
	if len(x) == 0 {
		return
	}
	me := w.node("Word", x, parent, group, ord)
	w.parts(x, me)
}

func (w *walker) parts(x ast.Word, me int) {
	for i, p := range x {
		switch p := p.(type) {
		case *ast.Lit:
			w.node("Lit", p, me, grp(me, "parts"), i)
			if p.Value == "" {
				w.field("Lit.Empty", p.ValuePos, "")
			} else {
				w.field("Lit.ValuePos", p.ValuePos, p.Value)
			}
		case *ast.Quote:
			q := w.node("Quote", p, me, grp(me, "parts"), i)
			w.field("Quote.TokPos", p.TokPos, p.Tok)
			w.parts(p.Value, q)
		case *ast.ParamExp:
			q := w.node("ParamExp", p, me, grp(me, "parts"), i)
			if p.Braces {
				w.field("ParamExp.Dollar{", p.Dollar, "")
			} else {
				w.field("ParamExp.Dollar", p.Dollar, "")
			}
			w.lit("ParamExp.Name", p.Name, q)
			w.optField("ParamExp.OpPos", p.OpPos, p.Op)
			w.word(p.Word, q, grp(q, "word"), 0)
		case *ast.CmdSubst:
			q := w.node("CmdSubst", p, me, grp(me, "parts"), i)
			if p.Dollar {
				w.field("CmdSubst.Left$", p.Left, "")
				w.field("CmdSubst.Right$", p.Right, "")
			} else {
				w.field("CmdSubst.Left`", p.Left, "")
				w.field("CmdSubst.Right`", p.Right, "")
			}
			w.commands(p.List, q, "list")
		case *ast.ArithExp:
			q := w.node("ArithExp", p, me, grp(me, "parts"), i)
			w.field("ArithExp.Left", p.Left, "")
			w.word(p.Expr, q, grp(q, "expr"), 0)
			w.field("ArithExp.Right", p.Right, "")
		}
	}
}

func runPoswalk(c parseCase) (o poswalkObs) {
	o = poswalkObs{ID: c.ID, Src: c.Src, Nodes: []nodeClaim{}, Fields: []fieldClaim{}, LineLens: []int{}}
	defer func() {
		if e := recover(); e != nil {
			o.Panic = panicString(e)
		}
	}()
	w := &walker{}
	for _, l := range strings.Split(c.Src, "\n") {
		w.lines = append(w.lines, []rune(l))
		o.LineLens = append(o.LineLens, len([]rune(l)))
	}
	cmds, comments, err := parser.ParseCommands(nil, "<verif>", c.Src)
	o.Err = errInfo(err)
	if err != nil {
		return
	}
	w.commands(cmds, 0, "top")
	for _, cm := range comments {
		w.field("Comment.Hash", cm.Hash, "")
		w.nodes = append(w.nodes, nodeClaim{Kind: "Comment", Pos: p2(cm.Pos()), End: p2(cm.Pos()), Parent: 0, Group: "comments@0", Ord: len(w.nodes), NonEmpty: true})
	}
	if w.nodes != nil {
		o.Nodes = w.nodes
	}
	if w.fields != nil {
		o.Fields = w.fields
	}
	return
}

func poswalkMode(in *bufio.Scanner, out *json.Encoder) error {
	for in.Scan() {
		var c parseCase
		if err := json.Unmarshal(in.Bytes(), &c); err != nil {
			return err
		}
		if err := out.Encode(runPoswalk(c)); err != nil {
			return err
		}
	}
	return in.Err()
}
