// Command driver runs the real go.sh code on cases produced by the TLA+
// specifications and records what it did.  It never decides a verdict.
//
//	driver <mode> [flags] < cases.ndjson > obs.ndjson
package main

import (
	"bufio"
	"encoding/json"
	"fmt"
	"os"
)

type modeFn func(in *bufio.Scanner, out *json.Encoder) error

var modes = map[string]modeFn{}

func main() {
	if len(os.Args) < 2 {
		fmt.Fprintln(os.Stderr, "usage: driver <mode>")
		os.Exit(2)
	}
	fn, ok := modes[os.Args[1]]
	if !ok {
		fmt.Fprintf(os.Stderr, "driver: unknown mode %q\n", os.Args[1])
		os.Exit(2)
	}
	in := bufio.NewScanner(os.Stdin)
	in.Buffer(make([]byte, 1<<20), 1<<28)
	size := 1 << 20
	if os.Getenv("VERIF_UNBUFFERED") != "" {
		// isolated workers: every record reaches the pipe before the next case runs, so that the
		// case that kills the process is the first unanswered one
		size = 16
	}
	w := bufio.NewWriterSize(os.Stdout, size)
	out := json.NewEncoder(w)
	out.SetEscapeHTML(false)
	err := fn(in, out)
	w.Flush()
	if err != nil {
		fmt.Fprintln(os.Stderr, "driver:", err)
		os.Exit(2)
	}
}
