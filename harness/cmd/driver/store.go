package main

import (
	"bufio"
	"encoding/json"
	"os"
	"sort"
	"strconv"
	"strings"

	"github.com/hattya/go.sh/ast"
	"github.com/hattya/go.sh/interp"

	"verif/harness/proj"
)

func init() {
	modes["store"] = storeMode
}

var storeUniverse = []string{"x", "X", "_y", "y2", "@", "*", "#", "?", "-", "$", "!", "0", "1", "2", "10"}

type storeOp struct {
	Op string `json:"op"`
	N  string `json:"n"`
	V  string `json:"v"`
}

type storeStepObs struct {
	Res    string            `json:"res"`
	Snap   map[string]string `json:"snap"`
	Walk   [][2]string       `json:"walk"`
	Intact bool              `json:"intact"`
	Panic  string            `json:"panic"`
}

type storeStep struct {
	storeOp
	Obs storeStepObs `json:"obs"`
}

type storeCase struct {
	ID      string    `json:"id"`
	NoUnset bool      `json:"nounset"`
	Ops     []storeOp `json:"ops"`
}

type storeObs struct {
	ID      string      `json:"id"`
	NoUnset bool        `json:"nounset"`
	Steps   []storeStep `json:"steps"`
}

func expandRes(env *interp.ExecEnv, w ast.Word) (res string, intact bool) {
	before := proj.Dump(w)
	f, err := env.Expand(w, 0)
	intact = proj.Dump(w) == before
	if err != nil {
		return "error:" + errInfo(err).Class, intact
	}
	return strings.Join(f, " "), intact
}

func runStore(c storeCase) storeObs {
	o := storeObs{ID: c.ID, NoUnset: c.NoUnset, Steps: []storeStep{}}
	env := interp.NewExecEnv("sh", "p1", "p2")
	var names []string
	env.Walk(func(v interp.Var) { names = append(names, v.Name) })
	for _, n := range names {
		env.Unset(n)
	}
	env.Opts |= interp.NoGlob
	if c.NoUnset {
		env.Opts |= interp.NoUnset
	}
	env.Aliases["al"] = "ias"
	pid := strconv.Itoa(os.Getpid())
	for _, op := range c.Ops {
		st := storeStep{storeOp: op}
		func() {
			defer func() {
				if e := recover(); e != nil {
					st.Obs.Panic = panicString(e)
				}
			}()
			st.Obs.Intact = true
			ctx := proj.Dump([]interface{}{env.Args, env.Opts, env.Aliases})
			switch op.Op {
			case "set":
				env.Set(op.N, op.V)
				st.Obs.Res = "ok"
			case "unset":
				env.Unset(op.N)
				st.Obs.Res = "ok"
			case "get":
				if v, set := env.Get(op.N); set {
					st.Obs.Res = v.Value
				} else {
					st.Obs.Res = "<unset>"
				}
			case "plain":
				st.Obs.Res, st.Obs.Intact = expandRes(env, ast.Word{&ast.ParamExp{Braces: len(op.N) > 1, Name: &ast.Lit{Value: op.N}}})
			case "%a":
				st.Obs.Res, st.Obs.Intact = expandRes(env, ast.Word{&ast.ParamExp{Braces: true, Name: &ast.Lit{Value: "@"}, Op: "%",
					Word: ast.Word{&ast.ArithExp{Expr: ast.Word{&ast.Lit{Value: "_y += 1"}}}}}})
			case ":=a":
				st.Obs.Res, st.Obs.Intact = expandRes(env, ast.Word{&ast.ParamExp{Braces: true, Name: &ast.Lit{Value: op.N}, Op: ":=",
					Word: ast.Word{&ast.ArithExp{Expr: ast.Word{&ast.Lit{Value: "_y += 1"}}}}}})
			case "p:=":
				st.Obs.Res, st.Obs.Intact = expandRes(env, ast.Word{&ast.Lit{Value: "p"}, &ast.ParamExp{Braces: true, Name: &ast.Lit{Value: op.N}, Op: ":=",
					Word: ast.Word{&ast.Lit{Value: op.V}}}})
			case ":-s", "-s", ":+s", "+s":
				st.Obs.Res, st.Obs.Intact = expandRes(env, ast.Word{&ast.ParamExp{Braces: true, Name: &ast.Lit{Value: op.N}, Op: op.Op[:len(op.Op)-1],
					Word: ast.Word{&ast.ParamExp{Braces: true, Name: &ast.Lit{Value: "_y"}, Op: ":=", Word: ast.Word{&ast.Lit{Value: "s"}}}}}})
			case ":=", "=", ":?", "?", "%", "%%", "#", "##":
				word := ast.Word{&ast.Lit{Value: op.V}}
				if op.V == "<fail>" {
					// a word whose own expansion fails
					word = ast.Word{&ast.ParamExp{Braces: true, Name: &ast.Lit{Value: "nosuch"}, Op: "?", Word: ast.Word{&ast.Lit{Value: "m"}}}}
				}
				st.Obs.Res, st.Obs.Intact = expandRes(env, ast.Word{&ast.ParamExp{Braces: true, Name: &ast.Lit{Value: op.N}, Op: op.Op, Word: word}})
			default:
				var expr string
				switch op.Op {
				case "a=":
					expr = op.N + " = " + op.V
				case "a+=":
					expr = op.N + " += " + op.V
				case "a++":
					expr = op.N + "++"
				case "++a":
					expr = "++" + op.N
				case "a--":
					expr = op.N + "--"
				case "a=1/0":
					expr = op.N + " = 1/0"
				case "a=08":
					expr = op.N + " = 08"
				}
				// through $(( )) so that Expand and Eval are both exercised
				w := ast.Word{&ast.ArithExp{Expr: ast.Word{&ast.Lit{Value: expr}}}}
				st.Obs.Res, st.Obs.Intact = expandRes(env, w)
			}
			if st.Obs.Res == pid {
				st.Obs.Res = "<pid>"
			}
			if proj.Dump([]interface{}{env.Args, env.Opts, env.Aliases}) != ctx {
				st.Obs.Intact = false
			}
		}()
		st.Obs.Snap = map[string]string{}
		for _, n := range storeUniverse {
			if v, set := env.Get(n); set {
				if v.Value == pid {
					st.Obs.Snap[n] = "<pid>"
				} else {
					st.Obs.Snap[n] = v.Value
				}
			} else {
				st.Obs.Snap[n] = "<unset>"
			}
		}
		st.Obs.Walk = [][2]string{}
		env.Walk(func(v interp.Var) { st.Obs.Walk = append(st.Obs.Walk, [2]string{v.Name, v.Value}) })
		sort.Slice(st.Obs.Walk, func(i, j int) bool { return st.Obs.Walk[i][0] < st.Obs.Walk[j][0] })
		o.Steps = append(o.Steps, st)
	}
	return o
}

func storeMode(in *bufio.Scanner, out *json.Encoder) error {
	for in.Scan() {
		var c storeCase
		if err := json.Unmarshal(in.Bytes(), &c); err != nil {
			return err
		}
		if err := out.Encode(runStore(c)); err != nil {
			return err
		}
	}
	return in.Err()
}
