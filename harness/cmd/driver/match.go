package main

import (
	"bufio"
	"encoding/json"
	"strings"
	"unicode/utf8"

	"github.com/hattya/go.sh/pattern"
)

func init() {
	modes["match"] = matchMode
}

// symbol names one character (see specs/Pattern.tla).
func symbol(s string) string {
	switch s {
	case "NL":
		return "\n"
	case "TAB":
		return "\t"
	case "SP":
		return " "
	case "DQ":
		return `"`
	case "U1":
		return "é"
	case "U2":
		return "あ"
	case "CR":
		return "\r"
	case "UFFFD":
		return "\uFFFD" // the replacement character itself, correctly encoded
	}
	return s
}

func symbols(ss []string) string {
	var b strings.Builder
	for _, s := range ss {
		b.WriteString(symbol(s))
	}
	return b.String()
}

type matchCase struct {
	Subjects [][]string       `json:"subjects,omitempty"` // header record
	P        []string         `json:"p"`
	Ps       [][]string       `json:"pats,omitempty"` // several patterns
	St       string           `json:"st"`
	Exp      map[string][]int `json:"exp"`
	Subj     [][]string       `json:"subj,omitempty"` // per-case subjects (overrides the header)
}

type matchObs struct {
	matchCase
	Obs  map[string][]int `json:"obs"`
	Text string           `json:"text"` // the concrete pattern(s)
	Errs []string         `json:"errs,omitempty"`
}

var matchModes = map[string]pattern.Mode{
	"ps": pattern.Prefix | pattern.Smallest,
	"pl": pattern.Prefix | pattern.Largest,
	"ss": pattern.Suffix | pattern.Smallest,
	"sl": pattern.Suffix | pattern.Largest,
}

// match1 runs pattern.Match once and projects the result: length (in
// characters) of the returned portion, -1 NoMatch, -2 error, -3 the
// returned string is not the corresponding prefix/suffix of s, -4 panic.
func match1(pats []string, name string, s string) (code int, errs string) {
	defer func() {
		if e := recover(); e != nil {
			code = -4
			errs = panicString(e)
		}
	}()
	m, err := pattern.Match(pats, matchModes[name], s)
	switch {
	case err == pattern.NoMatch:
		return -1, ""
	case err != nil:
		return -2, err.Error()
	}
	ok := false
	if name[0] == 'p' {
		ok = strings.HasPrefix(s, m)
	} else {
		ok = strings.HasSuffix(s, m)
	}
	if !ok {
		return -3, ""
	}
	return utf8.RuneCountInString(m), ""
}

func matchMode(in *bufio.Scanner, out *json.Encoder) error {
	var subjects []string
	for in.Scan() {
		var c matchCase
		if err := json.Unmarshal(in.Bytes(), &c); err != nil {
			return err
		}
		if c.Subjects != nil {
			subjects = subjects[:0]
			for _, s := range c.Subjects {
				subjects = append(subjects, symbols(s))
			}
			continue
		}
		subj := subjects
		if c.Subj != nil {
			subj = nil
			for _, s := range c.Subj {
				subj = append(subj, symbols(s))
			}
		}
		pats := []string{symbols(c.P)}
		if c.Ps != nil {
			pats = nil
			for _, p := range c.Ps {
				pats = append(pats, symbols(p))
			}
		}
		o := matchObs{matchCase: c, Obs: map[string][]int{}, Text: strings.Join(pats, " | ")}
		seen := map[string]bool{}
		for name := range matchModes {
			v := make([]int, len(subj))
			for i, s := range subj {
				var e string
				v[i], e = match1(pats, name, s)
				if e != "" && !seen[e] && len(o.Errs) < 3 {
					seen[e] = true
					o.Errs = append(o.Errs, e)
				}
			}
			o.Obs[name] = v
		}
		if err := out.Encode(o); err != nil {
			return err
		}
	}
	return in.Err()
}
