package main

import (
	"bufio"
	"encoding/json"
	"regexp"
	"strconv"
	"strings"

	"github.com/hattya/go.sh/interp"
)

func init() {
	modes["eval"] = evalMode
}

type evalCase struct {
	Min   string          `json:"min"`
	Full  string          `json:"full"`
	Tight string          `json:"tight"`
	Store string          `json:"store"`
	Undef bool            `json:"undef"`
	Exp   json.RawMessage `json:"exp"`
	Eager json.RawMessage `json:"eager"`
}

type varObs struct {
	Kind string `json:"kind"`
	V    []int  `json:"v"`
}

type evalRun struct {
	V     []int  `json:"v"`
	F     bool   `json:"f"` // an ArithExprError was returned
	Err   string `json:"err"`
	Msg   string `json:"msg"`
	X     varObs `json:"x"`
	Y     varObs `json:"y"`
	Same  bool   `json:"same"` // three runs gave the same value, error and store
	Panic string `json:"panic"`
}

type evalObs struct {
	evalCase
	Min1   evalRun `json:"omin"`
	Full1  evalRun `json:"ofull"`
	Tight1 evalRun `json:"otight"`
	XTen   evalRun `json:"oxten"` // the minimal rendering with the variable x spelled x10 (same values)
}

func evalStore(name string) *interp.ExecEnv {
	env := interp.NewExecEnv("sh")
	env.Unset("x")
	env.Unset("y")
	switch name {
	case "dec":
		env.Set("x", "3")
	case "octhex":
		env.Set("x", "010")
		env.Set("y", "0x1F")
	case "emptybad":
		env.Set("x", "")
		env.Set("y", "zz")
	case "gobase":
		// constants of Go, not of C
		env.Set("x", "0b11")
		env.Set("y", "1_000")
	default:
		env.Set("x", "-9223372036854775808")
		env.Set("y", "-1")
	}
	return env
}

func varOf(env *interp.ExecEnv, n string) varObs {
	v, set := env.Get(n)
	switch {
	case !set:
		return varObs{"unset", bytes64(0)}
	case v.Value == "":
		return varObs{"empty", bytes64(0)}
	}
	i, err := strconv.ParseInt(v.Value, 0, 64)
	if err != nil || strings.ContainsAny(v.Value, "_bBoO") && !strings.HasPrefix(strings.TrimLeft(v.Value, "+-"), "0x") && !strings.HasPrefix(strings.TrimLeft(v.Value, "+-"), "0X") {
		return varObs{"bad", bytes64(0)}
	}
	return varObs{"num", bytes64(i)}
}

func evalOnce(expr, store string) (r evalRun) {
	defer func() {
		if e := recover(); e != nil {
			r.Panic = panicString(e)
		}
	}()
	env := evalStore(store)
	n, err := env.Eval(expr)
	ei := errInfo(err)
	r.V = bytes64(int64(n))
	r.Err, r.Msg = ei.Class, ei.Msg
	r.F = ei.Class == "arith"
	r.X, r.Y = varOf(env, "x"), varOf(env, "y")
	if r.F {
		r.V = bytes64(0)
	}
	return
}

func evalText(expr, store string) evalRun {
	r := evalOnce(expr, store)
	r.Same = true
	a, _ := json.Marshal(r)
	for i := 0; i < 2; i++ {
		q := evalOnce(expr, store)
		q.Same = true
		b, _ := json.Marshal(q)
		if string(a) != string(b) {
			r.Same = false
		}
	}
	return r
}

var reX = regexp.MustCompile(`\bx\b`)

// evalTextRenamed evaluates the expression with x renamed to x10; the
// observation is reported under the name x.
func evalTextRenamed(expr, store string) evalRun {
	expr = reX.ReplaceAllString(expr, "x10")
	once := func() (r evalRun) {
		defer func() {
			if e := recover(); e != nil {
				r.Panic = panicString(e)
			}
		}()
		env := evalStore(store)
		if v, set := env.Get("x"); set {
			env.Set("x10", v.Value)
		} else {
			env.Unset("x10")
		}
		env.Unset("x")
		n, err := env.Eval(expr)
		ei := errInfo(err)
		r.V = bytes64(int64(n))
		r.Err, r.Msg = ei.Class, ei.Msg
		r.F = ei.Class == "arith"
		r.X, r.Y = varOf(env, "x10"), varOf(env, "y")
		if r.F {
			r.V = bytes64(0)
		}
		return
	}
	r := once()
	r.Same = true
	return r
}

func evalMode(in *bufio.Scanner, out *json.Encoder) error {
	for in.Scan() {
		var c evalCase
		if err := json.Unmarshal(in.Bytes(), &c); err != nil {
			return err
		}
		o := evalObs{evalCase: c, Min1: evalText(c.Min, c.Store), Full1: evalText(c.Full, c.Store), Tight1: evalText(c.Tight, c.Store), XTen: evalTextRenamed(c.Min, c.Store)}
		if err := out.Encode(o); err != nil {
			return err
		}
	}
	return in.Err()
}
