package main

import (
	"bufio"
	"encoding/json"
	"strings"
)

func init() {
	modes["alias"] = aliasMode
}

type aliasVal struct {
	Val   []string `json:"val"`
	Blank bool     `json:"blank"`
}

type aliasCase struct {
	ID   string              `json:"id"`
	Vals map[string]aliasVal `json:"vals"`
	Src  []string            `json:"src"`
	Out  []string            `json:"out"`
	Tab  bool                `json:"tab"` // render the trailing blank of values as a tab
}

type aliasObs struct {
	aliasCase
	SrcText string   `json:"srctext"`
	OutText string   `json:"outtext"`
	With    parseObs `json:"with"`  // source parsed with the alias table
	Plain   parseObs `json:"plain"` // substituted text parsed without aliases
}

func aliasMode(in *bufio.Scanner, out *json.Encoder) error {
	for in.Scan() {
		var c aliasCase
		if err := json.Unmarshal(in.Bytes(), &c); err != nil {
			return err
		}
		o := aliasObs{aliasCase: c}
		table := map[string]string{}
		for n, v := range c.Vals {
			s := strings.Join(v.Val, " ")
			if v.Blank {
				if c.Tab {
					s += "\t"
				} else {
					s += " "
				}
			}
			table[n] = s
		}
		o.SrcText = strings.Join(c.Src, " ") + "\n"
		o.OutText = strings.Join(c.Out, " ") + "\n"
		o.With = runParse(parseCase{ID: c.ID, Src: o.SrcText, Aliases: table})
		o.Plain = runParse(parseCase{ID: c.ID, Src: o.OutText})
		if err := out.Encode(o); err != nil {
			return err
		}
	}
	return in.Err()
}
