package main

import (
	"bufio"
	"bytes"
	"encoding/json"
	"errors"
	"fmt"
	"os"
	"regexp/syntax"
	"time"

	"github.com/hattya/go.sh/ast"
	"github.com/hattya/go.sh/interp"
	"github.com/hattya/go.sh/parser"
	"github.com/hattya/go.sh/pattern"
)

func init() {
	modes["robust"] = robustMode
}

type robustCase struct {
	Kind    string   `json:"kind"` // src, str, opts
	Src     string   `json:"src,omitempty"`
	Base    int      `json:"base,omitempty"`
	Exp     []string `json:"exp,omitempty"`
	Configs []cfgRec `json:"configs,omitempty"`
}

type robustObs struct {
	Kind     string   `json:"kind"`
	Src      string   `json:"src"`
	Accepted bool     `json:"accepted"`
	Calls    int      `json:"calls"`
	Panics   []string `json:"panics"`
	Errs     []string `json:"errs"`
	Exp      []string `json:"exp"`
	Got      []string `json:"got"`
}

func (o *robustObs) guard(what string, f func() error) {
	o.Calls++
	type res struct {
		err error
		pan string
	}
	ch := make(chan res, 1)
	go func() {
		var r res
		defer func() {
			if e := recover(); e != nil {
				r.pan = panicString(e)
			}
			ch <- r
		}()
		r.err = f()
	}()
	var r res
	select {
	case r = <-ch:
	case <-time.After(3 * time.Second):
		// a call that does not return is reported like a panic
		r.pan = "HANG: no return within 3s"
	}
	if r.pan != "" {
		if len(o.Panics) < 5 {
			o.Panics = append(o.Panics, what+": "+r.pan)
		}
		return
	}
	if err := r.err; err != nil {
		c := errClass(err)
		for _, x := range o.Errs {
			if x == c {
				return
			}
		}
		o.Errs = append(o.Errs, c)
	}
}

func errClass(err error) string {
	if err == pattern.NoMatch {
		return "nomatch"
	}
	var se *syntax.Error
	if errors.As(err, &se) {
		return "regexp"
	}
	c := errInfo(err).Class
	if c == "other" {
		return "other:" + fmt.Sprintf("%T", err)
	}
	return c
}

// words collects every word of the commands.
func collectWords(cmds []ast.Command) []ast.Word {
	var ws []ast.Word
	var cmd func(c ast.Command)
	var word func(w ast.Word)
	word = func(w ast.Word) {
		if len(w) != 0 {
			ws = append(ws, w)
		}
		for _, p := range w {
			switch p := p.(type) {
			case *ast.CmdSubst:
				for _, c := range p.List {
					cmd(c)
				}
			}
		}
	}
	var one func(c *ast.Cmd)
	one = func(c *ast.Cmd) {
		switch x := c.Expr.(type) {
		case *ast.SimpleCmd:
			for _, a := range x.Assigns {
				word(a.Value)
			}
			for _, a := range x.Args {
				word(a)
			}
		case *ast.Subshell:
			for _, c := range x.List {
				cmd(c)
			}
		case *ast.Group:
			for _, c := range x.List {
				cmd(c)
			}
		case *ast.ArithEval:
			word(x.Expr)
		case *ast.ForClause:
			for _, w := range x.Items {
				word(w)
			}
			for _, c := range x.List {
				cmd(c)
			}
		case *ast.CaseClause:
			word(x.Word)
			for _, ci := range x.Items {
				for _, w := range ci.Patterns {
					word(w)
				}
				for _, c := range ci.List {
					cmd(c)
				}
			}
		case *ast.IfClause:
			for _, c := range append(append([]ast.Command{}, x.Cond...), x.List...) {
				cmd(c)
			}
			for _, e := range x.Else {
				switch e := e.(type) {
				case *ast.ElifClause:
					for _, c := range append(append([]ast.Command{}, e.Cond...), e.List...) {
						cmd(c)
					}
				case *ast.ElseClause:
					for _, c := range e.List {
						cmd(c)
					}
				}
			}
		case *ast.WhileClause:
			for _, c := range append(append([]ast.Command{}, x.Cond...), x.List...) {
				cmd(c)
			}
		case *ast.UntilClause:
			for _, c := range append(append([]ast.Command{}, x.Cond...), x.List...) {
				cmd(c)
			}
		case *ast.FuncDef:
			cmd(x.Body)
		}
		for _, r := range c.Redirs {
			word(r.Word)
			word(r.Heredoc)
		}
	}
	cmd = func(c ast.Command) {
		switch c := c.(type) {
		case ast.List:
			for _, ao := range c {
				cmd(ao)
			}
		case *ast.AndOrList:
			cmd(c.Pipeline)
			for _, x := range c.List {
				cmd(x.Pipeline)
			}
		case *ast.Pipeline:
			one(c.Cmd)
			for _, x := range c.List {
				one(x.Cmd)
			}
		case *ast.Cmd:
			one(c)
		}
	}
	for _, c := range cmds {
		cmd(c)
	}
	return ws
}

var robustModes = []interp.ExpMode{0, interp.Arith, interp.Assign, interp.Literal, interp.Pattern, interp.Quote, interp.Assign | interp.Quote}

func runRobust(c robustCase, cfgs []cfgRec) (o robustObs) {
	o = robustObs{Kind: c.Kind, Src: c.Src, Panics: []string{}, Errs: []string{}, Exp: []string{}, Got: []string{}}
	switch c.Kind {
	case "opts":
		o.Exp = c.Exp
		for j := range c.Exp {
			v := c.Base + j
			o.guard(fmt.Sprintf("Option(%d).String", v), func() error {
				o.Got = append(o.Got, interp.Option(v).String())
				return nil
			})
		}
	case "str":
		env := interp.NewExecEnv("sh")
		o.guard("Eval", func() error { _, err := env.Eval(c.Src); return err })
		for _, m := range []pattern.Mode{pattern.Prefix | pattern.Smallest, pattern.Prefix | pattern.Largest, pattern.Suffix | pattern.Smallest, pattern.Suffix | pattern.Largest, pattern.Prefix | pattern.Suffix, 0} {
			m := m
			o.guard("Match(pattern=src)", func() error { _, err := pattern.Match([]string{c.Src}, m, "ab\n[]"); return err })
			o.guard("Match(subject=src)", func() error { _, err := pattern.Match([]string{"*a?", "[b-a]"[:0] + "?"}, m, c.Src); return err })
		}
		o.guard("Glob", func() error { _, err := pattern.Glob(c.Src); return err })
	default:
		cmds, _, err := parser.ParseCommands(nil, "<verif>", c.Src)
		if err != nil {
			return
		}
		o.Accepted = true
		o.guard("poswalk", func() error {
			w := &walker{}
			w.commands(cmds, 0, "top")
			return nil
		})
		for _, cr := range cfgs {
			cfg := cr.config()
			for _, cm := range cmds {
				cm := cm
				o.guard(fmt.Sprintf("Fprint cfg %d", cr.ID), func() error {
					var b bytes.Buffer
					return cfg.Fprint(&b, cm)
				})
			}
		}
		for _, w := range collectWords(cmds) {
			for _, m := range robustModes {
				w, m := w, m
				o.guard(fmt.Sprintf("Expand mode %d", m), func() error {
					env := interp.NewExecEnv("sh", "p1")
					env.Set("HOME", "/h")
					_, err := env.Expand(w, m)
					return err
				})
				// no positional parameters at all
				o.guard(fmt.Sprintf("Expand mode %d, no parameters", m), func() error {
					env := interp.NewExecEnv("sh")
					_, err := env.Expand(w, m)
					return err
				})
				// values and IFS that are not valid UTF-8, multi-byte and empty
				o.guard(fmt.Sprintf("Expand mode %d, odd environment", m), func() error {
					env := interp.NewExecEnv("sh", "p\xff1", "", "\u00e9")
					env.Set("HOME", "/h\xff")
					env.Set("IFS", "\xff,\u00e9")
					env.Set("a", "x\xff\xffy,\u00e9z\xc3")
					_, err := env.Expand(w, m)
					return err
				})
			}
		}
	}
	return
}

func robustMode(in *bufio.Scanner, out *json.Encoder) error {
	dir, err := os.MkdirTemp("", "verif-robust-")
	if err != nil {
		return err
	}
	defer os.RemoveAll(dir)
	os.WriteFile(dir+"/a", nil, 0o600)
	os.Mkdir(dir+"/d", 0o700)
	if err := os.Chdir(dir); err != nil {
		return err
	}
	var cfgs []cfgRec
	for in.Scan() {
		var c robustCase
		if err := json.Unmarshal(in.Bytes(), &c); err != nil {
			return err
		}
		if c.Configs != nil {
			cfgs = c.Configs
			continue
		}
		if err := out.Encode(runRobust(c, cfgs)); err != nil {
			return err
		}
	}
	return in.Err()
}
