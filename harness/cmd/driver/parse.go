package main

import (
	"bufio"
	"encoding/json"
	"errors"
	"fmt"
	"io"
	"strings"
	"sync/atomic"
	"time"
	"unicode/utf8"

	"github.com/hattya/go.sh/ast"
	"github.com/hattya/go.sh/interp"
	"github.com/hattya/go.sh/parser"

	"verif/harness/proj"
)

func init() {
	modes["parse"] = parseMode
}

// parseCase is one input for the parser.
type parseCase struct {
	ID      string            `json:"id"`
	Src     string            `json:"src"`
	Aliases map[string]string `json:"aliases,omitempty"`
	Source  string            `json:"source,omitempty"` // string (default), bytes, reader, scanner
	Name    string            `json:"name,omitempty"`
	Fault   *int              `json:"fault,omitempty"`   // first failing rune (scanner) / byte (reader) index
	EOFWrap bool              `json:"eofwrap,omitempty"` // the injected error also wraps io.EOF (it is still not io.EOF)
}

type commentObs struct {
	Line int    `json:"line"`
	Col  int    `json:"col"`
	Text string `json:"text"`
}

// parseObs is what one ParseCommands call did.
type parseObs struct {
	ID        string       `json:"id"`
	Err       proj.ErrInfo `json:"err"`
	N         int          `json:"n"` // number of commands
	Sk        []string     `json:"sk"`
	Shapes    []string     `json:"shapes"`
	Hd        []proj.HdObs `json:"hd"`
	Comments  []commentObs `json:"comments"`
	Remaining int          `json:"remaining"` // runes left in the scanner (scanner/string sources)
	Panic     string       `json:"panic"`
	ProjErr   string       `json:"projerr"`
	Delivered bool         `json:"delivered,omitempty"` // the injected fault was returned to the parser before it returned
	ErrIs     bool         `json:"erris,omitempty"`     // errors.Is(err, injected)
}

// countScanner is an io.RuneScanner over a rune slice that exposes how
// much was consumed and can start failing at a given rune index.
type countScanner struct {
	rs      []rune
	i       int
	failAt  int // -1: never
	failErr error
	reads   int
	failed  bool
}

func newCountScanner(s string, failAt int, failErr error) *countScanner {
	return &countScanner{rs: []rune(s), failAt: failAt, failErr: failErr}
}

func (c *countScanner) ReadRune() (rune, int, error) {
	c.reads++
	if c.failAt >= 0 && c.i >= c.failAt {
		c.failed = true
		return 0, 0, c.failErr
	}
	if c.i >= len(c.rs) {
		return 0, 0, io.EOF
	}
	r := c.rs[c.i]
	c.i++
	return r, utf8.RuneLen(r), nil
}

func (c *countScanner) UnreadRune() error {
	if c.i == 0 {
		return errors.New("countScanner: at beginning")
	}
	c.i--
	return nil
}

func (c *countScanner) remaining() int { return len(c.rs) - c.i }

// failReader is an io.Reader that fails once off bytes were delivered.
type failReader struct {
	b       []byte
	off     int
	failAt  int
	failErr error
	failed  bool
}

func (f *failReader) Read(p []byte) (int, error) {
	if f.failAt >= 0 && f.off >= f.failAt {
		f.failed = true
		return 0, f.failErr
	}
	if f.off >= len(f.b) {
		return 0, io.EOF
	}
	end := len(f.b)
	if f.failAt >= 0 && end > f.failAt {
		end = f.failAt
	}
	n := copy(p, f.b[f.off:end])
	f.off += n
	return n, nil
}

func errInfo(err error) proj.ErrInfo {
	if err == nil {
		return proj.ErrInfo{Class: "none"}
	}
	var pe parser.Error
	if errors.As(err, &pe) {
		return proj.ErrInfo{Class: "syntax", Name: pe.Name, Line: pe.Pos.Line(), Col: pe.Pos.Col(), Msg: pe.Msg}
	}
	var ae interp.ArithExprError
	if errors.As(err, &ae) {
		return proj.ErrInfo{Class: "arith", Msg: ae.Msg}
	}
	var xe interp.ParamExpError
	if errors.As(err, &xe) {
		return proj.ErrInfo{Class: "param", Msg: xe.Msg}
	}
	if errors.Is(err, errInjected) {
		return proj.ErrInfo{Class: "read", Msg: err.Error()}
	}
	return proj.ErrInfo{Class: "other", Msg: err.Error()}
}

var errInjected = errors.New("verif: injected read fault")

func commentsObs(cs []*ast.Comment) []commentObs {
	out := []commentObs{}
	for _, c := range cs {
		out = append(out, commentObs{c.Hash.Line(), c.Hash.Col(), c.Text})
	}
	return out
}

func envFor(aliases map[string]string) *interp.ExecEnv {
	if aliases == nil {
		return nil
	}
	env := interp.NewExecEnv("sh")
	for k, v := range aliases {
		env.Aliases[k] = v
	}
	return env
}

// runParse runs one parse under a watchdog: a call that does not return
// within hangTimeout is reported as panic "HANG" (its goroutines leak).
func runParse(c parseCase) parseObs {
	if atomic.LoadInt32(&hangs) > maxHangs {
		// too many hangs in this process already: do not pile up more leaked goroutines
		return parseObs{ID: c.ID, Err: proj.ErrInfo{Class: "skipped"}, Sk: []string{}, Shapes: []string{}, Hd: []proj.HdObs{}, Comments: []commentObs{}, Remaining: -1}
	}
	ch := make(chan parseObs, 1)
	go func() { ch <- runParse1(c) }()
	select {
	case o := <-ch:
		return o
	case <-time.After(hangTimeout):
		atomic.AddInt32(&hangs, 1)
		return parseObs{ID: c.ID, Err: proj.ErrInfo{Class: "hang"}, Sk: []string{}, Shapes: []string{}, Hd: []proj.HdObs{}, Comments: []commentObs{}, Remaining: -1, Panic: "HANG"}
	}
}

var hangTimeout = 3 * time.Second

var hangs int32

const maxHangs = 3

func runParse1(c parseCase) (o parseObs) {
	o.ID = c.ID
	o.Remaining = -1
	defer func() {
		if e := recover(); e != nil {
			o.Panic = panicString(e)
		}
	}()
	name := c.Name
	if name == "" {
		name = "<verif>"
	}
	var src interface{}
	var cs *countScanner
	var sr *strings.Reader
	var fr *failReader
	failAt := -1
	if c.Fault != nil {
		failAt = *c.Fault
	}
	ferr := fmt.Errorf("wrapped: %w", errInjected)
	if c.EOFWrap {
		ferr = fmt.Errorf("wrapped: %w (%w)", errInjected, io.EOF)
	}
	switch c.Source {
	case "", "string":
		src = c.Src
	case "bytes":
		src = []byte(c.Src)
	case "reader":
		fr = &failReader{b: []byte(c.Src), failAt: failAt, failErr: ferr}
		src = struct{ io.Reader }{fr}
	case "scanner":
		cs = newCountScanner(c.Src, failAt, ferr)
		src = cs
	case "sreader":
		sr = strings.NewReader(c.Src)
		src = sr
	}
	cmds, comments, err := parser.ParseCommands(envFor(c.Aliases), name, src)
	o.Err = errInfo(err)
	o.N = len(cmds)
	o.ErrIs = errors.Is(err, errInjected)
	if cs != nil {
		o.Delivered = cs.failed
	}
	if fr != nil {
		o.Delivered = fr.failed
	}
	sk, perr := proj.Commands(cmds)
	if perr != nil {
		o.ProjErr = perr.Error()
	}
	o.Sk, o.Shapes, o.Hd = sk.Sk, sk.Shapes, sk.Hd
	if o.Sk == nil {
		o.Sk, o.Shapes = []string{}, []string{}
	}
	if o.Hd == nil {
		o.Hd = []proj.HdObs{}
	}
	o.Comments = commentsObs(comments)
	if cs != nil {
		o.Remaining = cs.remaining()
	}
	if sr != nil {
		o.Remaining = utf8.RuneCountInString(c.Src[len(c.Src)-sr.Len():])
	}
	return
}

func panicString(e interface{}) string {
	switch e := e.(type) {
	case error:
		return "error: " + e.Error()
	case string:
		return e
	}
	return "panic"
}

func parseMode(in *bufio.Scanner, out *json.Encoder) error {
	for in.Scan() {
		var c parseCase
		if err := json.Unmarshal(in.Bytes(), &c); err != nil {
			return err
		}
		if err := out.Encode(runParse(c)); err != nil {
			return err
		}
	}
	return in.Err()
}
