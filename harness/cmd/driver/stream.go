package main

import (
	"bufio"
	"encoding/json"
	"strings"
	"unicode/utf8"

	"github.com/hattya/go.sh/parser"

	"verif/harness/proj"
)

func init() {
	modes["stream"] = streamMode
}

type streamSeg struct {
	Kind string `json:"kind"` // cmd, blank, comment
	Text string `json:"text"`
}

type streamCase struct {
	ID     string      `json:"id"`
	Segs   []streamSeg `json:"segs"`
	Source string      `json:"source"` // scanner, sreader
}

type streamCall struct {
	Pos      int          `json:"pos"` // runes consumed so far, after the call
	N        int          `json:"n"`
	Sk       []string     `json:"sk"`
	Err      proj.ErrInfo `json:"err"`
	Comments []string     `json:"comments"`
}

type segObs struct {
	Kind  string       `json:"kind"`
	Len   int          `json:"len"` // runes
	Alone []string     `json:"alone"`
	Err   proj.ErrInfo `json:"err"`
}

type streamObs struct {
	ID     string       `json:"id"`
	Source string       `json:"source"`
	Segs   []segObs     `json:"segs"`
	Calls  []streamCall `json:"calls"`
	Panic  string       `json:"panic"`
	Total  int          `json:"total"`
}

func runStream(c streamCase) (o streamObs) {
	o = streamObs{ID: c.ID, Source: c.Source, Segs: []segObs{}, Calls: []streamCall{}}
	defer func() {
		if e := recover(); e != nil {
			o.Panic = panicString(e)
		}
	}()
	var all strings.Builder
	for _, s := range c.Segs {
		so := segObs{Kind: s.Kind, Len: utf8.RuneCountInString(s.Text), Alone: []string{}}
		if s.Kind == "cmd" {
			cmds, _, err := parser.ParseCommands(nil, "<alone>", s.Text)
			so.Err = errInfo(err)
			sk, _ := proj.Commands(cmds)
			so.Alone = sk.Sk
		} else {
			so.Err = errInfo(nil)
		}
		o.Segs = append(o.Segs, so)
		all.WriteString(s.Text)
	}
	text := all.String()
	o.Total = utf8.RuneCountInString(text)
	var cs *countScanner
	var sr *strings.Reader
	var src interface{}
	if c.Source == "sreader" {
		sr = strings.NewReader(text)
		src = sr
	} else {
		cs = newCountScanner(text, -1, nil)
		src = cs
	}
	remaining := func() int {
		if cs != nil {
			return cs.remaining()
		}
		return utf8.RuneCountInString(text[len(text)-sr.Len():])
	}
	for i := 0; i < len(c.Segs)+3 && remaining() > 0; i++ {
		cmds, comments, err := parser.ParseCommands(nil, "<stream>", src)
		sk, _ := proj.Commands(cmds)
		call := streamCall{Pos: o.Total - remaining(), N: len(cmds), Sk: sk.Sk, Err: errInfo(err), Comments: []string{}}
		for _, cm := range comments {
			call.Comments = append(call.Comments, cm.Text)
		}
		o.Calls = append(o.Calls, call)
		if err != nil {
			break
		}
	}
	return
}

func streamMode(in *bufio.Scanner, out *json.Encoder) error {
	for in.Scan() {
		var c streamCase
		if err := json.Unmarshal(in.Bytes(), &c); err != nil {
			return err
		}
		if err := out.Encode(runStream(c)); err != nil {
			return err
		}
	}
	return in.Err()
}
