package main

import (
	"bufio"
	"encoding/json"
	"fmt"

	"github.com/hattya/go.sh/ast"
	"github.com/hattya/go.sh/interp"
)

func init() {
	modes["split"] = splitMode
}

// see specs/Split.tla: Chars, SegKinds, IFSNames
var splitChars = []string{"x", "SP", "TAB", ",", "1", "U1", "CR"}

var splitIFS = []struct {
	name  string
	unset bool
	value string
}{
	{"unset", true, ""},
	{"default", false, " \t\n"},
	{"sp_comma", false, " ,"},
	{"comma", false, ","},
	{"one", false, "1"},
	{"empty", false, ""},
	{"sp_u1", false, " é"},
	{"comma_one", false, ",1"},
	{"sp_only", false, " "},
}

type splitCase struct {
	Segs []int       `json:"segs"`
	Exp  interface{} `json:"exp,omitempty"`
}

type splitObs struct {
	Segs []int                   `json:"segs"`
	Obs  map[string][][][]string `json:"obs"`
	Errs []string                `json:"errs,omitempty"`
}

// toSymbols maps a field back to symbols.
func toSymbols(s string) []string {
	out := []string{}
	for _, r := range s {
		switch r {
		case ' ':
			out = append(out, "SP")
		case '\t':
			out = append(out, "TAB")
		case '\n':
			out = append(out, "NL")
		case '\r':
			out = append(out, "CR")
		case '\uFFFD':
			out = append(out, "UFFFD")
		case 'é':
			out = append(out, "U1")
		case '\u00fc', '\u0129':
			out = append(out, "x")
		case 'あ':
			out = append(out, "U2")
		case '"':
			out = append(out, "DQ")
		default:
			out = append(out, string(r))
		}
	}
	return out
}

// splitOrdinary is the ordinary character "x" of a construction: in two of
// them it is a multi-byte character that shares its first byte ("\u00fc", C3 BC)
// or its last byte ("\u0129", C4 A9) with the multi-byte IFS character
// "\u00e9" (C3 A9), so that a byte-wise comparison with IFS shows.
func splitOrdinary(variant string) string {
	switch variant {
	case "var":
		return "\u00fc"
	case "dflt":
		return "\u0129"
	}
	return "x"
}

// splitWord builds the word for the segment ids.  In variant "lit"
// unquoted characters are literals, in variant "var" they come from
// parameter expansions; quoted characters rotate through the three
// quoting styles.
func splitWord(segs []int, variant string, env *interp.ExecEnv) ast.Word {
	var w ast.Word
	n := len(splitChars)
	for i, id := range segs {
		switch {
		case id <= n:
			c := symbol(splitChars[id-1])
			if c == "x" {
				c = splitOrdinary(variant)
			}
			if variant == "arith" && c == "1" {
				// the digit comes out of an arithmetic expansion
				w = append(w, &ast.ArithExp{Expr: ast.Word{&ast.Lit{Value: "3 - 2"}}})
			} else if variant == "var" || variant == "arith" {
				name := fmt.Sprintf("v%d", id)
				env.Set(name, c)
				w = append(w, &ast.ParamExp{Name: &ast.Lit{Value: name}, Braces: i%2 == 0})
			} else {
				w = append(w, &ast.Lit{Value: c})
			}
		case id <= 2*n:
			c := symbol(splitChars[id-n-1])
			if c == "x" {
				c = splitOrdinary(variant)
			}
			switch i % 3 {
			case 0:
				w = append(w, &ast.Quote{Tok: `'`, Value: ast.Word{&ast.Lit{Value: c}}})
			case 1:
				w = append(w, &ast.Quote{Tok: `"`, Value: ast.Word{&ast.Lit{Value: c}}})
			default:
				w = append(w, &ast.Quote{Tok: `\`, Value: ast.Word{&ast.Lit{Value: c}}})
			}
		default:
			// empty quotes: as the parser builds them ('' holds an empty literal, "" holds nothing), and
			// '' holding nothing, as a program that builds the tree itself may write it
			switch i % 3 {
			case 0:
				w = append(w, &ast.Quote{Tok: `'`, Value: ast.Word{&ast.Lit{Value: ""}}})
			case 1:
				w = append(w, &ast.Quote{Tok: `"`})
			default:
				w = append(w, &ast.Quote{Tok: `'`})
			}
		}
	}
	switch variant {
	case "dflt":
		// the whole word as the default value of an unset parameter
		return ast.Word{&ast.ParamExp{Braces: true, Name: &ast.Lit{Value: "nosuch"}, Op: ":-", Word: w}}
	case "tilde":
		return append(ast.Word{&ast.Lit{Value: "~/"}}, w...)
	}
	return w
}

func splitMode(in *bufio.Scanner, out *json.Encoder) error {
	// one environment for the whole run: IFS is set, changed and unset again and again, so that a
	// setting that survives its replacement or removal shows up
	env := interp.NewExecEnv("sh")
	env.Opts |= interp.NoGlob
	for in.Scan() {
		var c splitCase
		if err := json.Unmarshal(in.Bytes(), &c); err != nil {
			return err
		}
		o := splitObs{Segs: c.Segs, Obs: map[string][][][]string{}}
		env.Set("HOME", "x,1")
		for _, variant := range []string{"lit", "var", "arith", "dflt", "tilde"} {
			per := [][][]string{}
			for _, ifs := range splitIFS {
				if ifs.unset {
					env.Unset("IFS")
				} else {
					env.Set("IFS", ifs.value)
				}
				w := splitWord(c.Segs, variant, env)
				fields := [][]string{}
				func() {
					defer func() {
						if e := recover(); e != nil {
							o.Errs = append(o.Errs, "panic: "+panicString(e))
							fields = [][]string{{"PANIC"}}
						}
					}()
					fs, err := env.Expand(w, 0)
					if err != nil {
						o.Errs = append(o.Errs, err.Error())
						fields = [][]string{{"ERROR"}}
						return
					}
					for _, f := range fs {
						fields = append(fields, toSymbols(f))
					}
				}()
				per = append(per, fields)
			}
			o.Obs[variant] = per
		}
		if err := out.Encode(o); err != nil {
			return err
		}
	}
	return in.Err()
}
