package main

import (
	"bufio"
	"bytes"
	"encoding/json"
	"errors"
	"fmt"
	"os"
	"strconv"

	"github.com/hattya/go.sh/ast"
	"github.com/hattya/go.sh/parser"
	"github.com/hattya/go.sh/printer"

	"verif/harness/proj"
)

func init() {
	modes["print"] = printMode
}

// cfgRec is one printer configuration as enumerated by specs/PrintRT.tla.
type cfgRec struct {
	ID     int    `json:"id"`
	Indent string `json:"indent"` // tab, space
	Width  int    `json:"width"`
	Redir  string `json:"redir"` // before, after
	Spaced bool   `json:"spaced"`
	Assign string `json:"assign"` // before, after
	Do     bool   `json:"do"`     // newline before do
	Then   bool   `json:"then"`   // newline before then
	Case   bool   `json:"case"`
}

func (c cfgRec) config() *printer.Config {
	p := &printer.Config{Width: c.Width, Case: c.Case}
	if c.Indent == "space" {
		p.Indent = printer.Space
	} else {
		p.Indent = printer.Tab
	}
	if c.Redir == "before" {
		p.Redir = printer.Before
	} else {
		p.Redir = printer.After
	}
	if c.Spaced {
		p.Redir |= printer.Space
	}
	if c.Assign == "after" {
		p.Assign = printer.After
	} else {
		p.Assign = printer.Before
	}
	if c.Do {
		p.Do = printer.Newline
	}
	if c.Then {
		p.Then = printer.Newline
	}
	return p
}

type printCase struct {
	Configs []cfgRec `json:"configs,omitempty"` // header
	ID      string   `json:"id"`
	Src     string   `json:"src"`
	Faults  bool     `json:"faults,omitempty"` // also enumerate failing writers
	Only    []int    `json:"only,omitempty"`   // configuration ids to use (default: all)
}

type rtDiff struct {
	Cfg  int          `json:"cfg"`
	Out  string       `json:"out"`
	Err  proj.ErrInfo `json:"err"`
	Sk2  []string     `json:"sk2"`
	Nrem int          `json:"rem"` // runes left unparsed in the printed text
}

type badRec struct {
	Cfg  int    `json:"cfg"`
	What string `json:"what"`
	A    string `json:"a,omitempty"`
	B    string `json:"b,omitempty"`
}

type printObs struct {
	ID      string       `json:"id"`
	Src     string       `json:"src"`
	Err     proj.ErrInfo `json:"err"`
	Sk      []string     `json:"sk"`
	NCfg    int          `json:"ncfg"`
	Want    int          `json:"want"` // configurations requested for this program
	NSame   int          `json:"nsame"`
	RT      []rtDiff     `json:"rt"`       // configurations whose re-parsed skeleton is not identical to sk
	IdemBad []badRec     `json:"idem_bad"` // print(parse(out)) != out
	DetBad  []badRec     `json:"det_bad"`  // printing twice gives different bytes
	PureBad []badRec     `json:"pure_bad"` // tree changed by Fprint
	PErr    []badRec     `json:"perr"`     // Fprint error or panic with a working writer
	WFTotal int          `json:"wf_total"` // failing-writer runs
	WFBad   []badRec     `json:"wf_bad"`   // failing writer not reported / panic
	Sample  string       `json:"sample"`   // one printed form
}

// printAll prints all commands one per line.
func printAll(cfg *printer.Config, cmds []ast.Command, w *bytes.Buffer) (err error) {
	defer func() {
		if e := recover(); e != nil {
			err = fmt.Errorf("PANIC: %s", panicString(e))
		}
	}()
	for _, c := range cmds {
		if err := cfg.Fprint(w, c); err != nil {
			return err
		}
		w.WriteByte('\n')
	}
	return nil
}

type limitWriter struct {
	n      int
	err    error
	failed bool // a write was refused
}

func (l *limitWriter) Write(p []byte) (int, error) {
	if len(p) > l.n {
		n := l.n
		l.n = 0
		l.failed = true
		return n, l.err
	}
	l.n -= len(p)
	return len(p), nil
}

var errWrite = errors.New("verif: injected write fault")

func skEqual(a, b []string) bool {
	if len(a) != len(b) {
		return false
	}
	for i := range a {
		if a[i] != b[i] {
			return false
		}
	}
	return true
}

// parseAll parses every command of text (successive calls on one scanner).
func parseAll(text string) ([]ast.Command, error, int) {
	cs := newCountScanner(text, -1, nil)
	var all []ast.Command
	for cs.remaining() > 0 {
		cmds, _, err := parser.ParseCommands(nil, "<printed>", cs)
		all = append(all, cmds...)
		if err != nil {
			return all, err, cs.remaining()
		}
	}
	return all, nil, 0
}

func runPrint(c printCase, cfgs []cfgRec) (o printObs) {
	o = printObs{ID: c.ID, Src: c.Src, RT: []rtDiff{}, IdemBad: []badRec{}, DetBad: []badRec{}, PureBad: []badRec{}, PErr: []badRec{}, WFBad: []badRec{}, Sk: []string{}}
	cmds, _, err := parser.ParseCommands(nil, "<verif>", c.Src)
	o.Err = errInfo(err)
	if err != nil {
		return
	}
	sk, _ := proj.Commands(cmds)
	o.Sk = sk.Sk
	if c.Only != nil {
		sel := make([]cfgRec, 0, len(c.Only))
		for _, id := range c.Only {
			sel = append(sel, cfgs[id])
		}
		cfgs = sel
	}
	o.Want = len(cfgs)
	for ci, cr := range cfgs {
		cfg := cr.config()
		before := proj.Dump(cmds)
		var out1 bytes.Buffer
		if err := printAll(cfg, cmds, &out1); err != nil {
			o.PErr = append(o.PErr, badRec{Cfg: cr.ID, What: err.Error()})
			o.NCfg++
			continue
		}
		if after := proj.Dump(cmds); after != before {
			o.PureBad = append(o.PureBad, badRec{Cfg: cr.ID, What: "tree changed by Fprint", A: trunc(before), B: trunc(after)})
		}
		var out1b bytes.Buffer
		if err := printAll(cfg, cmds, &out1b); err != nil || !bytes.Equal(out1.Bytes(), out1b.Bytes()) {
			o.DetBad = append(o.DetBad, badRec{Cfg: cr.ID, What: "second print differs", A: out1.String(), B: out1b.String()})
		}
		if o.Sample == "" && cr.ID%37 == 5 {
			o.Sample = out1.String()
		}
		// round trip
		func() {
			defer func() {
				if e := recover(); e != nil {
					o.RT = append(o.RT, rtDiff{Cfg: cr.ID, Out: out1.String(), Err: proj.ErrInfo{Class: "panic", Msg: panicString(e)}, Sk2: []string{}})
				}
			}()
			cmds2, err2, rem := parseAll(out1.String())
			sk2, _ := proj.Commands(cmds2)
			if err2 != nil || !skEqual(sk2.Sk, o.Sk) {
				o.RT = append(o.RT, rtDiff{Cfg: cr.ID, Out: out1.String(), Err: errInfo(err2), Sk2: sk2.Sk, Nrem: rem})
			} else {
				o.NSame++
			}
			if err2 == nil {
				var out2 bytes.Buffer
				if err := printAll(cfg, cmds2, &out2); err != nil || !bytes.Equal(out1.Bytes(), out2.Bytes()) {
					o.IdemBad = append(o.IdemBad, badRec{Cfg: cr.ID, What: "print(parse(print(t))) differs", A: out1.String(), B: out2.String()})
				}
			}
		}()
		o.NCfg++
		// failing writers
		if c.Faults && (ci == 0 || ci == len(cfgs)-1) {
			for k := 0; k < out1.Len(); k++ {
				o.WFTotal++
				func() {
					defer func() {
						if e := recover(); e != nil {
							o.WFBad = append(o.WFBad, badRec{Cfg: cr.ID, What: "panic with writer failing after " + strconv.Itoa(k) + " bytes: " + panicString(e)})
						}
					}()
					lw := &limitWriter{n: k, err: errWrite}
					var err error
					for _, c := range cmds {
						if err = cfg.Fprint(lw, c); err != nil {
							break
						}
						if lw.failed {
							// the writer refused a write of this very call, and the call reported success
							o.WFBad = append(o.WFBad, badRec{Cfg: cr.ID, What: "writer failing after " + strconv.Itoa(k) + " of " + strconv.Itoa(out1.Len()) + " bytes: a write was refused during Fprint, Fprint returned nil"})
							err = errWrite
							break
						}
						if _, err = lw.Write([]byte{'\n'}); err != nil {
							break
						}
					}
					if err == nil {
						o.WFBad = append(o.WFBad, badRec{Cfg: cr.ID, What: "writer failing after " + strconv.Itoa(k) + " of " + strconv.Itoa(out1.Len()) + " bytes: Fprint returned nil"})
					}
				}()
			}
		}
	}
	return
}

func trunc(s string) string {
	if len(s) > 600 {
		return s[:600] + "..."
	}
	return s
}

func printMode(in *bufio.Scanner, out *json.Encoder) error {
	var cfgs []cfgRec
	for in.Scan() {
		var c printCase
		if err := json.Unmarshal(in.Bytes(), &c); err != nil {
			return err
		}
		if c.Configs != nil {
			cfgs = c.Configs
			continue
		}
		var o printObs
		func() {
			defer func() {
				if e := recover(); e != nil {
					o = printObs{ID: c.ID, Src: c.Src, Err: proj.ErrInfo{Class: "panic", Msg: panicString(e)}}
					fmt.Fprintln(os.Stderr, "driver print: panic on", strconv.Quote(c.Src))
				}
			}()
			o = runPrint(c, cfgs)
		}()
		if err := out.Encode(o); err != nil {
			return err
		}
	}
	return in.Err()
}
