package main

import (
	"bufio"
	"encoding/json"
	"os"
	"path/filepath"
	"sort"
	"strings"

	"github.com/hattya/go.sh/ast"
	"github.com/hattya/go.sh/interp"
	"github.com/hattya/go.sh/pattern"
)

func init() {
	modes["glob"] = globMode
}

type globEntry struct {
	Path [][]string `json:"path"`
	Kind string     `json:"kind"`
}

type globPat struct {
	Comps  [][]string   `json:"comps"`
	Slash  bool         `json:"slash"`
	Abs    bool         `json:"abs"`
	Rep    int          `json:"rep"`
	Exp    [][][]string `json:"exp"`
	ExpStr [][]string   `json:"expstr"`
	// the other reading of a trailing backslash (equal to exp / expstr otherwise)
	Exp2    [][][]string `json:"exp2"`
	ExpStr2 [][]string   `json:"expstr2"`
	// expected fields of the pattern written as a word: the matches, or the word itself (quotes removed) when nothing matches
	WText []string    `json:"wtext"`
	ExpW  [][]string  `json:"expw"`
	ExpW2 [][]string  `json:"expw2"`
	Obs   *globPatObs `json:"obs,omitempty"`
}

type globPatObs struct {
	Text    string       `json:"text"`
	Strs    [][]string   `json:"strs"` // result strings as symbols (ROOT for the scratch directory), "." / ".." entries removed
	Res     [][][]string `json:"res"`  // result paths as names as symbols, entries through "." / ".." removed
	Dots    int          `json:"dots"` // results with a "." or ".." component (optional members)
	Err     string       `json:"err"`
	Sorted  bool         `json:"sorted"` // ascending byte order
	NoDup   bool         `json:"nodup"`
	Lstat   bool         `json:"lstat"`   // every returned path exists
	SlashOK bool         `json:"slashok"` // every result ends in a slash iff the pattern does
	XW      [][]string   `json:"xw"`      // ExecEnv.Expand of the same pattern written as a word (relative, single slashes): the fields
	XDots   int          `json:"xdots"`   // ... fields with a "." or ".." component
	XErr    string       `json:"xerr"`
	XSorted bool         `json:"xsorted"`
	EscRoot bool         `json:"escroot"` // absolute pattern: the same result when the first slash is written \/
	XV      [][]string   `json:"xv"`      // $v with the pattern text as the value of v (patterns without a backslash)
	XQ      [][]string   `json:"xq"`      // "$v"
	NoBS    bool         `json:"nobs"`
	Panic   string       `json:"panic"`
}

type globCase struct {
	Tree    interface{} `json:"tree"`
	Entries []globEntry `json:"entries"`
	Pats    []globPat   `json:"pats"`
}

func nameOf(syms []string) string { return symbols(syms) }

func runGlobPat(p globPat) (o *globPatObs) {
	o = &globPatObs{Res: [][][]string{}, Strs: [][]string{}, Sorted: true, NoDup: true, Lstat: true, SlashOK: true}
	defer func() {
		if e := recover(); e != nil {
			o.Panic = panicString(e)
		}
	}()
	parts := make([]string, len(p.Comps))
	for i, c := range p.Comps {
		parts[i] = symbols(c)
	}
	sep := "/"
	if p.Rep == 2 {
		sep = "//"
	}
	o.Text = strings.Join(parts, sep)
	if p.Slash {
		o.Text += sep
	}
	root := ""
	if p.Abs {
		root, _ = os.Getwd()
		o.Text = root + "/" + o.Text
	}
	res, err := pattern.Glob(o.Text)
	if err != nil {
		o.Err = err.Error()
	}
	o.EscRoot = true
	if p.Abs {
		res2, err2 := pattern.Glob("\\" + o.Text)
		o.EscRoot = (err == nil) == (err2 == nil) && strings.Join(res, "\x00") == strings.Join(res2, "\x00")
	}
	seen := map[string]bool{}
	for i, r := range res {
		if i > 0 && res[i-1] >= r {
			if res[i-1] == r {
				o.NoDup = false
			} else {
				o.Sorted = false
			}
		}
		if seen[r] {
			o.NoDup = false
		}
		seen[r] = true
		if _, err := os.Lstat(r); err != nil {
			o.Lstat = false
		}
		if strings.HasSuffix(r, "/") != p.Slash {
			o.SlashOK = false
		}
		rel := r
		str := []string{}
		if p.Abs && strings.HasPrefix(r, root+"/") {
			rel = r[len(root)+1:]
			str = append(str, "ROOT", "/")
		}
		str = append(str, toSymbols(rel)...)
		names := strings.Split(strings.TrimRight(rel, "/"), "/")
		dot := false
		path := [][]string{}
		for _, n := range names {
			if n == "" {
				continue
			}
			if n == "." || n == ".." {
				dot = true
			}
			path = append(path, toSymbols(n))
		}
		if dot {
			o.Dots++
			continue
		}
		o.Res = append(o.Res, path)
		o.Strs = append(o.Strs, str)
	}
	// the same pattern as a word: escaped characters become backslash quotations
	o.XW, o.XV, o.XQ = [][]string{}, [][]string{}, [][]string{}
	o.XSorted = true
	if !p.Abs && p.Rep != 2 {
		var w ast.Word
		for i, c := range p.Comps {
			if i > 0 {
				w = append(w, &ast.Lit{Value: "/"})
			}
			for j := 0; j < len(c); j++ {
				if c[j] == "\\" && j+1 < len(c) {
					w = append(w, &ast.Quote{Tok: "\\", Value: ast.Word{&ast.Lit{Value: symbol(c[j+1])}}})
					j++
				} else {
					w = append(w, &ast.Lit{Value: symbol(c[j])})
				}
			}
		}
		if p.Slash {
			w = append(w, &ast.Lit{Value: "/"})
		}
		env := interp.NewExecEnv("sh")
		fs, err := env.Expand(w, 0)
		if err != nil {
			o.XErr = err.Error()
		}
		for i, f := range fs {
			if i > 0 && fs[i-1] >= f {
				o.XSorted = false
			}
			dot := false
			for _, n := range strings.Split(strings.TrimRight(f, "/"), "/") {
				if n == "." || n == ".." {
					dot = true
				}
			}
			if dot {
				o.XDots++
				continue
			}
			o.XW = append(o.XW, toSymbols(f))
		}
		// the pattern as the value of a variable: active when the expansion is unquoted, literal inside double quotes
		o.NoBS = !strings.Contains(o.Text, "\\")
		if o.NoBS {
			env.Set("v", o.Text)
			pe := &ast.ParamExp{Name: &ast.Lit{Value: "v"}}
			if fs, err := env.Expand(ast.Word{pe}, 0); err == nil {
				for _, f := range fs {
					dot := false
					for _, n := range strings.Split(strings.TrimRight(f, "/"), "/") {
						if n == "." || n == ".." {
							dot = true
						}
					}
					if !dot {
						o.XV = append(o.XV, toSymbols(f))
					}
				}
			} else {
				o.XErr = err.Error()
			}
			if fs, err := env.Expand(ast.Word{&ast.Quote{Tok: `"`, Value: ast.Word{pe}}}, 0); err == nil {
				for _, f := range fs {
					o.XQ = append(o.XQ, toSymbols(f))
				}
			} else {
				o.XErr = err.Error()
			}
		}
	}
	return
}

func globMode(in *bufio.Scanner, out *json.Encoder) error {
	base, err := os.MkdirTemp("", "verif-glob-")
	if err != nil {
		return err
	}
	defer os.RemoveAll(base)
	os.Mkdir(filepath.Join(base, "tgt"), 0o700)
	os.WriteFile(filepath.Join(base, "tgt", "a"), nil, 0o600)
	n := 0
	for in.Scan() {
		var c globCase
		if err := json.Unmarshal(in.Bytes(), &c); err != nil {
			return err
		}
		n++
		dir := filepath.Join(base, "t")
		os.RemoveAll(dir)
		if err := os.Mkdir(dir, 0o700); err != nil {
			return err
		}
		// directories first
		sort.Slice(c.Entries, func(i, j int) bool { return len(c.Entries[i].Path) < len(c.Entries[j].Path) })
		for _, e := range c.Entries {
			names := make([]string, len(e.Path))
			for i, s := range e.Path {
				names[i] = nameOf(s)
			}
			p := filepath.Join(append([]string{dir}, names...)...)
			switch e.Kind {
			case "dir":
				err = os.Mkdir(p, 0o700)
			case "link":
				err = os.Symlink("nonexistent-target", p)
			case "ldir":
				// a symbolic link to a directory outside the tree that holds the file a
				err = os.Symlink(filepath.Join(base, "tgt"), p)
			case "lfile":
				// the entry seen through the link: it exists in the target already
			default:
				err = os.WriteFile(p, nil, 0o600)
			}
			if err != nil {
				return err
			}
		}
		if err := os.Chdir(dir); err != nil {
			return err
		}
		for i := range c.Pats {
			c.Pats[i].Obs = runGlobPat(c.Pats[i])
		}
		os.Chdir(base)
		if err := out.Encode(c); err != nil {
			return err
		}
	}
	return in.Err()
}
