package main

import (
	"bufio"
	"encoding/json"
	"unicode/utf8"
)

func init() {
	modes["faults"] = faultsMode
}

type faultObs struct {
	K  int      `json:"k"`
	Sc parseObs `json:"sc"` // custom io.RuneScanner failing from rune k
	Rd parseObs `json:"rd"` // io.Reader (wrapped in bufio by the parser) failing from the byte offset of rune k
}

type innerObs struct {
	K  int      `json:"k"` // the character the failing byte belongs to
	B  int      `json:"b"` // byte offset of the first failing read
	Rd parseObs `json:"rd"`
}

type faultsObs struct {
	Inner  []innerObs `json:"inner"` // io.Reader failing strictly inside a multi-byte character
	ID     string     `json:"id"`
	Src    string     `json:"src"`
	Len    int        `json:"len"`
	Base   parseObs   `json:"base"`
	Faults []faultObs `json:"faults"`
}

func faultsMode(in *bufio.Scanner, out *json.Encoder) error {
	for in.Scan() {
		var c parseCase
		if err := json.Unmarshal(in.Bytes(), &c); err != nil {
			return err
		}
		n := utf8.RuneCountInString(c.Src)
		o := faultsObs{ID: c.ID, Src: c.Src, Len: n, Faults: []faultObs{}, Inner: []innerObs{}}
		b := c
		b.Source = "scanner"
		o.Base = runParse(b)
		// byte offset of every rune index
		offs := make([]int, 0, n+1)
		for i := range c.Src {
			offs = append(offs, i)
		}
		offs = append(offs, len(c.Src))
		for k := 0; k <= n; k++ {
			sc := c
			sc.Source = "scanner"
			kk := k
			sc.Fault = &kk
			// the two kinds of error alternate between the two deliveries
			sc.EOFWrap = k%2 == 1
			rd := c
			rd.EOFWrap = k%2 == 0
			rd.Source = "reader"
			bo := offs[k]
			rd.Fault = &bo
			o.Faults = append(o.Faults, faultObs{K: k, Sc: runParse(sc), Rd: runParse(rd)})
			// an io.Reader can also start failing strictly inside a character that takes several bytes
			if k < n {
				for b := offs[k] + 1; b < offs[k+1]; b++ {
					in := c
					in.Source = "reader"
					bb := b
					in.Fault = &bb
					in.EOFWrap = b%2 == 0
					o.Inner = append(o.Inner, innerObs{K: k, B: b, Rd: runParse(in)})
				}
			}
		}
		if err := out.Encode(o); err != nil {
			return err
		}
	}
	return in.Err()
}
