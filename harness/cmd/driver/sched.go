//go:build verif

package main

import (
	"bufio"
	"bytes"
	"encoding/json"
	"fmt"
	"math/rand"
	"os"
	"runtime"
	"sort"
	"strconv"
	"sync"
	"time"

	"github.com/hattya/go.sh/interp"
	"github.com/hattya/go.sh/parser"

	"verif/harness/proj"
)

func init() {
	modes["sched"] = schedMode
}

// A gated scheduler over the verif hooks.  Every hook call parks the calling
// goroutine until the controller grants it; the controller grants one parked
// goroutine at a time, chosen by a policy, and waits for the next arrival (or
// for a short timeout, which means that the granted goroutine blocked on a
// channel / mutex or finished).  The order of grants is the recorded trace.

type schedCase struct {
	ID     string `json:"id"`
	Kind   string `json:"kind"` // parse, eval
	Src    string `json:"src"`
	Policy string `json:"policy"`          // lexer, parser, random, bits, free, race
	Fault  *int   `json:"fault,omitempty"` // parse: the source fails from this rune index on
	Bits   string `json:"bits,omitempty"`  // policy bits: at the i-th decision point 0 = lexer side first, 1 = parser side first
	Seed   int64  `json:"seed"`
	// Schedule, when given, is a list of thread names to grant in order
	// (replay of a behaviour of Proto.tla); the policy takes over when it
	// is exhausted or not applicable.
	Schedule []string `json:"schedule,omitempty"`
}

type schedEvent struct {
	T  string `json:"t"`  // thread: g<k> in order of first appearance
	ID int    `json:"id"` // lexer id
	Pt string `json:"pt"`
	N  int    `json:"n"`
}

type schedObs struct {
	ID       string       `json:"id"`
	Kind     string       `json:"kind"`
	Src      string       `json:"src"`
	Policy   string       `json:"policy"`
	Seed     int64        `json:"seed"`
	Err      proj.ErrInfo `json:"err"`
	Sk       []string     `json:"sk"`
	Shapes   []string     `json:"shapes"`
	Hd       []proj.HdObs `json:"hd"`
	ProjErr  string       `json:"projerr"`
	Comments []string     `json:"comments"`
	Consumed int          `json:"consumed"` // runes read from the source at return
	Value    int          `json:"value"`    // eval
	Store    []string     `json:"store"`    // eval: x,y after the call
	Events   []schedEvent `json:"events"`
	NRet     int          `json:"nret"`     // number of events before the call returned
	Late     int          `json:"late"`     // events after the call returned
	LateRead int          `json:"lateread"` // reads of the source after the call returned
	Running  []int        `json:"running"`  // lexers that had not reached their exit point when the call returned
	Hang     bool         `json:"hang"`
	Panic    string       `json:"panic"`
	Timeouts int          `json:"timeouts"`
	NDec     int          `json:"ndec"` // decision points (two or more goroutines ready)
	Bits     string       `json:"bits"`
}

func goid() uint64 {
	var buf [64]byte
	n := runtime.Stack(buf[:], false)
	// "goroutine 123 ["
	f := bytes.Fields(buf[:n])
	id, _ := strconv.ParseUint(string(f[1]), 10, 64)
	return id
}

type parkedG struct {
	g    uint64
	name string
	ev   schedEvent
	ch   chan struct{}
}

type controller struct {
	mu      sync.Mutex
	names   map[uint64]string
	parked  []*parkedG
	arrive  chan struct{}
	events  []schedEvent
	free    bool
	race    bool
	rnd     *rand.Rand
	policy  string
	sched   []string
	retAt   int
	started time.Time
	bits    string
	ndec    int
	lastPt  map[string]string // goroutine -> the point it was last released from
	lexSide map[string]bool   // goroutine runs a lexer (it passed L.start)
	waitTil time.Time         // a grant is deferred until the preferred side shows up (or this deadline)
}

// blockedAfter lists the points after which a goroutine waits for its peer
// (or is gone); after any other point it is still running and reaches
// another point on its own.
var blockedAfter = map[string]bool{
	"L.wait": true, "L.emit": true, "L.exit": true, "H.wait": true,
	"P.req": true, "P.tok": true, "P.parsed": true, "P.joined": true, "P.set": true,
}

// runningSide reports whether a goroutine of the given side was released
// from a point after which it keeps running, and is not parked now.
func (c *controller) runningSide(lexer bool) bool {
	for name, pt := range c.lastPt {
		if c.lexSide[name] != lexer || blockedAfter[pt] {
			continue
		}
		parked := false
		for _, p := range c.parked {
			if p.name == name {
				parked = true
			}
		}
		if !parked {
			return true
		}
	}
	return false
}

func (c *controller) hook(id int, pt string, n int) {
	if c.race {
		// free running under the race detector: no shared state, no synchronisation
		switch (time.Now().UnixNano() >> 3) % 5 {
		case 0:
			runtime.Gosched()
		case 1:
			time.Sleep(time.Microsecond)
		}
		return
	}
	g := goid()
	c.mu.Lock()
	name, ok := c.names[g]
	if !ok {
		name = "g" + strconv.Itoa(len(c.names)+1)
		c.names[g] = name
	}
	ev := schedEvent{T: name, ID: id, Pt: pt, N: n}
	if c.free {
		c.events = append(c.events, ev)
		c.mu.Unlock()
		// jitter without synchronisation
		switch (time.Now().UnixNano() >> 3) % 7 {
		case 0:
			runtime.Gosched()
		case 1:
			time.Sleep(time.Microsecond)
		}
		return
	}
	p := &parkedG{g: g, name: name, ev: ev, ch: make(chan struct{})}
	c.parked = append(c.parked, p)
	c.mu.Unlock()
	select {
	case c.arrive <- struct{}{}:
	default:
	}
	<-p.ch
}

// pick chooses the next goroutine to grant.
func (c *controller) pick() *parkedG {
	if len(c.parked) == 0 {
		return nil
	}
	sort.Slice(c.parked, func(i, j int) bool { return c.parked[i].name < c.parked[j].name })
	idx := -1
	if len(c.sched) != 0 {
		want := c.sched[0]
		for i, p := range c.parked {
			if p.name == want {
				idx = i
				c.sched = c.sched[1:]
				break
			}
		}
		if idx == -1 {
			return nil // the scheduled thread has not arrived yet
		}
	} else {
		isLexer := func(p *parkedG) bool {
			// a goroutine that passed L.start runs a lexer (its E.* and H.* points included)
			return c.lexSide[p.name] || p.ev.Pt == "L.start"
		}
		pol := c.policy
		if pol == "bits" {
			pol = "lexer"
			if len(c.parked) >= 2 {
				if c.ndec < len(c.bits) && c.bits[c.ndec] == '1' {
					pol = "parser"
				}
				c.ndec++
			}
		}
		switch pol {
		case "lexer":
			for i, p := range c.parked {
				if isLexer(p) && (idx == -1 || p.ev.ID > c.parked[idx].ev.ID) {
					idx = i
				}
			}
		case "parser":
			for i, p := range c.parked {
				if !isLexer(p) && (idx == -1 || p.ev.ID > c.parked[idx].ev.ID) {
					idx = i
				}
			}
		}
		if idx == -1 {
			if pol == "random" {
				idx = c.rnd.Intn(len(c.parked))
			} else {
				// the preferred side has nobody parked: if one of its goroutines is still running it
				// will arrive shortly -- an extreme schedule waits for it (bounded)
				if os.Getenv("VERIF_SCHED_DEBUG") != "" {
					fmt.Fprintf(os.Stderr, "pick: pol=%s parked=%d running=%v last=%v lex=%v\n", pol, len(c.parked), c.runningSide(pol == "lexer"), c.lastPt, c.lexSide)
				}
				if (pol == "lexer" || pol == "parser") && c.runningSide(pol == "lexer") {
					now := time.Now()
					if c.waitTil.IsZero() {
						c.waitTil = now.Add(3 * time.Millisecond)
					}
					if now.Before(c.waitTil) {
						if c.policy == "bits" && len(c.parked) >= 2 {
							c.ndec-- // not a decision yet
						}
						return nil
					}
				}
				idx = 0
			}
		}
	}
	c.waitTil = time.Time{}
	p := c.parked[idx]
	c.parked = append(c.parked[:idx], c.parked[idx+1:]...)
	c.lastPt[p.name] = p.ev.Pt
	if p.ev.Pt == "L.start" {
		c.lexSide[p.name] = true
	}
	return p
}

const (
	settle       = 400 * time.Microsecond
	quiesce      = 30 * time.Microsecond
	hangTimeout2 = 4 * time.Second
)

// run drives the call until it returns and nothing is parked any more.
func (c *controller) run(done <-chan struct{}) (hang bool, timeouts int) {
	returned := false
	idle := time.Now()
	for {
		c.mu.Lock()
		p := c.pick()
		if p != nil {
			c.events = append(c.events, p.ev)
		}
		nparked := len(c.parked)
		c.mu.Unlock()
		if p != nil {
			close(p.ch)
			idle = time.Now()
			// wait for the next arrival, the return of the call, or the settle timeout ...
			arrived := false
			select {
			case <-c.arrive:
				arrived = true
			case <-done:
				if !returned {
					returned = true
					c.mu.Lock()
					c.retAt = len(c.events)
					c.mu.Unlock()
				}
				done = nil
			case <-time.After(settle):
				timeouts++
			}
			// ... and then until nothing else arrives for a moment, so that a decision sees every ready goroutine
			for arrived {
				select {
				case <-c.arrive:
				case <-time.After(quiesce):
					arrived = false
				}
			}
			continue
		}
		// nothing grantable
		select {
		case <-c.arrive:
			idle = time.Now()
		case <-done:
			if !returned {
				returned = true
				c.mu.Lock()
				c.retAt = len(c.events)
				c.mu.Unlock()
			}
			done = nil
		case <-time.After(200 * time.Microsecond):
			c.mu.Lock()
			nparked = len(c.parked)
			if nparked != 0 && len(c.sched) != 0 && time.Since(idle) > 2*time.Millisecond {
				// the schedule cannot be followed any further: drop it
				c.sched = nil
			}
			c.mu.Unlock()
			if returned && nparked == 0 && time.Since(idle) > 20*time.Millisecond {
				return false, timeouts
			}
			if time.Since(idle) > hangTimeout2 {
				// release everybody so that goroutines do not leak parked
				c.mu.Lock()
				c.free = true
				for _, q := range c.parked {
					close(q.ch)
				}
				c.parked = nil
				c.mu.Unlock()
				return !returned, timeouts
			}
		}
	}
}

func runSched(c schedCase) (o schedObs) {
	o = schedObs{ID: c.ID, Kind: c.Kind, Src: c.Src, Policy: c.Policy, Seed: c.Seed, Sk: []string{}, Shapes: []string{}, Hd: []proj.HdObs{}, Comments: []string{}, Store: []string{}, Events: []schedEvent{}, Running: []int{}}
	ctl := &controller{lastPt: map[string]string{}, lexSide: map[string]bool{}, names: map[uint64]string{}, arrive: make(chan struct{}, 1), rnd: rand.New(rand.NewSource(c.Seed)), policy: c.Policy, sched: c.Schedule, retAt: -1, bits: c.Bits}
	ctl.free = c.Policy == "free" || c.Policy == "race"
	ctl.race = c.Policy == "race"
	parser.VerifReset()
	interp.VerifReset()
	parser.VerifHook = ctl.hook
	interp.VerifHook = ctl.hook
	defer func() {
		parser.VerifHook = nil
		interp.VerifHook = nil
	}()
	done := make(chan struct{})
	var cs *countScanner
	readsAtRet := 0
	go func() {
		defer close(done)
		defer func() {
			if e := recover(); e != nil {
				o.Panic = panicString(e)
			}
		}()
		switch c.Kind {
		case "eval":
			env := interp.NewExecEnv("sh")
			env.Unset("x")
			env.Unset("y")
			n, err := env.Eval(c.Src)
			o.Value = n
			o.Err = errInfo(err)
			for _, name := range []string{"x", "y"} {
				if v, set := env.Get(name); set {
					o.Store = append(o.Store, name+"="+v.Value)
				}
			}
		default:
			failAt := -1
			if c.Fault != nil {
				failAt = *c.Fault
			}
			cs = newCountScanner(c.Src, failAt, errInjected)
			cmds, comments, err := parser.ParseCommands(nil, "<verif>", cs)
			readsAtRet = cs.reads
			o.Consumed = len(cs.rs) - cs.remaining()
			o.Err = errInfo(err)
			sk, perr := proj.Commands(cmds)
			if perr != nil {
				o.ProjErr = perr.Error()
			}
			o.Sk, o.Shapes, o.Hd = sk.Sk, sk.Shapes, sk.Hd
			if o.Sk == nil {
				o.Sk, o.Shapes = []string{}, []string{}
			}
			if o.Hd == nil {
				o.Hd = []proj.HdObs{}
			}
			for _, cm := range comments {
				o.Comments = append(o.Comments, cm.Text)
			}
		}
	}()
	if ctl.free {
		select {
		case <-done:
		case <-time.After(hangTimeout2):
			o.Hang = true
		}
		time.Sleep(2 * time.Millisecond)
		ctl.mu.Lock()
		ctl.retAt = len(ctl.events)
		ctl.mu.Unlock()
	} else {
		o.Hang, o.Timeouts = ctl.run(done)
	}
	if o.Hang {
		o.Err = proj.ErrInfo{Class: "hang"}
	}
	ctl.mu.Lock()
	o.Events = append(o.Events, ctl.events...)
	o.NRet = ctl.retAt
	o.NDec = ctl.ndec
	o.Bits = c.Bits
	ctl.mu.Unlock()
	if o.NRet < 0 {
		o.NRet = len(o.Events)
	}
	o.Late = len(o.Events) - o.NRet
	// lexers that had not passed their exit point when the call returned
	exited := map[int]bool{}
	seen := map[int]bool{}
	for i, e := range o.Events {
		if i >= o.NRet {
			break
		}
		if e.Pt == "L.new" {
			seen[e.ID] = true
		}
		if e.Pt == "L.exit" {
			exited[e.ID] = true
		}
	}
	for id := range seen {
		if !exited[id] {
			o.Running = append(o.Running, id)
		}
	}
	sort.Ints(o.Running)
	if cs != nil && !o.Hang {
		time.Sleep(time.Millisecond)
		o.LateRead = cs.reads - readsAtRet
	}
	return
}

func schedMode(in *bufio.Scanner, out *json.Encoder) error {
	for in.Scan() {
		var c schedCase
		if err := json.Unmarshal(in.Bytes(), &c); err != nil {
			return err
		}
		if err := out.Encode(runSched(c)); err != nil {
			return err
		}
	}
	return in.Err()
}
