------------------------------ MODULE PrintCfg ------------------------------
(* Emits the configuration list (the input space of C05 / C18 / C19).      *)
EXTENDS PrintRT, TLC
VARIABLE x
Init == x = 0
Next == FALSE /\ x' = x
Emit == PrintT(<<"CONFIGS", ToJson(Configs)>>)
ASSUME ConfigsComplete
=============================================================================
