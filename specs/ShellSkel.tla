----------------------------- MODULE ShellSkel ------------------------------
(***************************************************************************)
(* Predicates over skeletons (flat sequences of markers, see ShellGrammar   *)
(* and harness/proj/skel.go).                                               *)
(***************************************************************************)
EXTENDS Integers, Sequences, TLC

(* The documented node shape of a command slot ("ln[" ... "]ln"): the       *)
(* parser collapses singleton lists (extract in parser.go.y):               *)
(*   List       more than one and-or list                                   *)
(*   AndOrList  one and-or list with an && / || operator or a separator     *)
(*   Pipeline   one pipeline with ! or |                                    *)
(*   Cmd        otherwise                                                   *)
ShapeOf(f) == IF f.naos > 1 THEN "List"
              ELSE IF f.op \/ f.sep THEN "AndOrList"
              ELSE IF f.pipe THEN "Pipeline"
              ELSE "Cmd"

NewFrame(id) == [id |-> id, naos |-> 0, op |-> FALSE, sep |-> FALSE, pipe |-> FALSE]

Upd(f, x) ==
    CASE x = "ao["                      -> [f EXCEPT !.naos = @ + 1]
      [] x \in {"op:&&", "op:||"}       -> [f EXCEPT !.op = TRUE]
      [] x \in {"sep:;", "sep:&", "sep:"} -> [f EXCEPT !.sep = TRUE]
      [] x \in {"op:!", "op:|"}         -> [f EXCEPT !.pipe = TRUE]
      [] OTHER                          -> f

(* walk: stack of frames of the open slots, out[id] = shape, n = slots opened *)
RECURSIVE ShapeWalk(_, _, _, _, _)
ShapeWalk(s, i, stack, out, n) ==
    IF i > Len(s) THEN out
    ELSE LET x == s[i] IN
      IF x = "ln[" THEN ShapeWalk(s, i + 1, <<NewFrame(n + 1)>> \o stack, out, n + 1)
      ELSE IF x = "]ln" THEN
           (IF stack = <<>> THEN out
            ELSE ShapeWalk(s, i + 1, Tail(stack), out @@ (Head(stack).id :> ShapeOf(Head(stack))), n))
      ELSE IF stack = <<>> THEN ShapeWalk(s, i + 1, stack, out, n)
      ELSE ShapeWalk(s, i + 1, <<Upd(Head(stack), x)>> \o Tail(stack), out, n)

ExpectedShapes(s) ==
    LET out == ShapeWalk(s, 1, <<>>, <<>>, 0)
    IN  [i \in 1..Len(out) |-> out[i]]

ShapeOK(s, shapes) == shapes = ExpectedShapes(s)

(* the "same program" relation of C05 / C09 *)
Norm(s) == SelectSeq(s, LAMBDA x : x \notin {"ln[", "]ln", "sep:;", "forsemi", "op:(", "op:;;"})

(***************************************************************************)
(* C02: a generated program is accepted and its AST mirrors the derivation. *)
(***************************************************************************)
Accepted(o) == o.err.class = "none" /\ o.panic = "" /\ o.projerr = ""
MirrorsDerivation(rec) == /\ Accepted(rec.obs)
                          /\ rec.obs.sk = rec.sk
                          /\ ShapeOK(rec.obs.sk, rec.obs.shapes)
=============================================================================
