-------------------------------- MODULE Total --------------------------------
(***************************************************************************)
(* C01: parsing is total.  One record holds the runs of one input under     *)
(* every configuration: source kind {string, bytes, reader, scanner} x      *)
(* GODEBUG panicnil {0, 1} x alias table {none, given}.  Worker processes   *)
(* isolate the runs; a worker that died on an input is recorded with        *)
(* exit # 0.                                                                *)
(***************************************************************************)
EXTENDS Integers, Sequences, TLC

Returned(r) == /\ r.exit = 0            \* the process was not brought down
               /\ r.panic = ""          \* no panic in the caller's goroutine, no hang (watchdog)
               /\ r.err.class # "hang"

(* the outcome does not depend on how the source is delivered nor on the panicnil setting *)
Outcome(r) == <<r.err.class, r.sk>>

Holds(rec) == /\ \A i \in 1..Len(rec.runs) : Returned(rec.runs[i])
              \* (runs with a failing source, panicnil = -1, are only required to return)
              /\ \A i \in 1..Len(rec.runs) : (rec.runs[i].aliases = rec.runs[1].aliases /\ rec.runs[i].panicnil >= 0)
                                                 => Outcome(rec.runs[i]) = Outcome(rec.runs[1])
=============================================================================
