------------------------------ MODULE ShellGen ------------------------------
(***************************************************************************)
(* Leftmost-derivation machine over ShellGrammar.                           *)
(*                                                                          *)
(*   form   pending symbols; its head is always a nonterminal (or it is     *)
(*          empty: the derivation is complete)                              *)
(*   toks   terminals emitted so far                                        *)
(*   sk     skeleton emitted so far (the expected position-free AST)        *)
(*   dev    number of non-minimal alternatives chosen (deviation budget)    *)
(*   drv    production ids used (coverage)                                  *)
(*                                                                          *)
(* Exhaustive BFS with MaxDev = k enumerates every program that differs     *)
(* from the minimal program `a` in at most k places: every production       *)
(* (k = 1), every pair of productions in every relative position (k = 2).   *)
(* -simulate samples long derivations (MaxDev large, depth bounded by       *)
(* MaxDepth).                                                               *)
(***************************************************************************)
EXTENDS ShellGrammar, Json, SequencesExt

CONSTANT MaxDev
CONSTANT StartSym      \* "prog" (the whole dialect) or a focus nonterminal such as "hdprog"

VARIABLES form, toks, sk, dev, drv
vars == <<form, toks, sk, dev, drv>>

(* move leading terminals / markers of a form to toks / sk *)
RECURSIVE Flush(_, _, _)
Flush(f, ts, s) ==
    IF f = <<>> \/ Head(f).k = "n" THEN [form |-> f, toks |-> ts, sk |-> s]
    ELSE IF Head(f).k = "t" THEN Flush(Tail(f), Append(ts, Head(f)), s)
    ELSE Flush(Tail(f), ts, Append(s, Head(f).m))

Start == NT(StartSym, 0, TRUE, FALSE, FALSE, "")

Init == /\ form = <<Start>> /\ toks = <<>> /\ sk = <<>> /\ dev = 0 /\ drv = <<>>

Expand(i) ==
    LET nt  == Head(form)
        alt == Alts(nt)[i]
        fl  == Flush(alt.r \o Tail(form), toks, sk)
    IN  /\ dev + alt.c <= MaxDev
        /\ (nt.d >= MaxDepth => alt.c = 0)
        /\ form' = fl.form /\ toks' = fl.toks /\ sk' = fl.sk
        /\ dev' = dev + alt.c
        /\ drv' = Append(drv, nt.n \o "#" \o ToString(i))

Next == form # <<>> /\ \E i \in 1..Len(Alts(Head(form))) : Expand(i)

Complete == form = <<>>

(***************************************************************************)
(* Rendering.  Every token gets `pre`, the text printed before it.          *)
(***************************************************************************)
IsNL(t) == t.t = "\n"

WithPre(ts) == [i \in 1..Len(ts) |->
                 [t |-> ts[i].t, gap |-> ts[i].gap, lb |-> ts[i].lb, semi |-> ts[i].semi, hd |-> ts[i].hd, nlk |-> ts[i].nlk,
                  pre |-> IF i = 1 \/ ts[i].gap = "adj" \/ IsNL(ts[i]) \/ IsNL(ts[i - 1]) THEN "" ELSE " "]]

(* text of the pending here-documents, in order *)
RECURSIVE HdText(_)
HdText(hs) == IF hs = <<>> THEN "" ELSE Head(hs).body \o Head(hs).dl \o "\n" \o HdText(Tail(hs))

(* Pending here-documents are kept per nesting level of $( ): a newline inside a command substitution begins the        *)
(* here-documents announced inside it, those of the enclosing command begin after the newline that ends ITS line      *)
(* (bash, dash and go.sh agree).  stk: the pending lists, innermost last.                                             *)
RECURSIVE RenderFrom(_, _, _)
RenderFrom(ts, i, stk) ==
    IF i > Len(ts) THEN ""
    ELSE LET t == ts[i] n == Len(stk) top == stk[n] IN
         IF IsNL(t) THEN t.pre \o "\n" \o HdText(top) \o RenderFrom(ts, i + 1, [stk EXCEPT ![n] = <<>>])
         ELSE IF t.t = "$(" THEN t.pre \o t.t \o RenderFrom(ts, i + 1, Append([stk EXCEPT ![n] = top \o t.hd], <<>>))
         ELSE IF t.nlk = "cs" /\ n > 1 THEN t.pre \o t.t \o RenderFrom(ts, i + 1, SubSeq(stk, 1, n - 1))
         ELSE t.pre \o t.t \o RenderFrom(ts, i + 1, [stk EXCEPT ![n] = top \o t.hd])

Render(ts) == RenderFrom(ts, 1, << <<>> >>)

(* here-documents in source order: [body, dl] *)
RECURSIVE HdList(_, _)
HdList(ts, i) == IF i > Len(ts) THEN <<>> ELSE ts[i].hd \o HdList(ts, i + 1)

(* the multi-line form of the same program: every ; that may be a newline   *)
(* is one, and a newline follows every token after which the grammar allows *)
(* a linebreak (pending here-document bodies move to the first newline)     *)
NLTok == [t |-> "\n", gap |-> "sp", lb |-> TRUE, semi |-> FALSE, hd |-> <<>>, nlk |-> "lb"]
RECURSIVE MLFrom(_, _)
MLFrom(ts, i) ==
    IF i > Len(ts) THEN <<>>
    ELSE LET t    == IF ts[i].semi THEN [ts[i] EXCEPT !.t = "\n"] ELSE ts[i]
             nlnx == i < Len(ts) /\ (IsNL(ts[i + 1]) \/ ts[i + 1].semi)
         IN  <<t>> \o (IF ts[i].lb /\ ~IsNL(t) /\ ~nlnx THEN <<NLTok>> ELSE <<>>) \o MLFrom(ts, i + 1)
MultiLine(ts0) == Render(WithPre(MLFrom(ts0, 1)))

CaseRec == LET ts == WithPre(toks) IN
           [src |-> Render(ts), ml |-> MultiLine(toks), sk |-> sk, dev |-> dev, drv |-> drv, ntok |-> Len(toks), hd |-> HdList(ts, 1)]

EmitCase == Complete => PrintT(<<"CASE", ToJson(CaseRec)>>)


(***************************************************************************)
(* Layout transformations (C09).  Each yields a variant token sequence; the *)
(* expectation is the same program (Norm-equal skeleton) and exactly the    *)
(* inserted comments.                                                       *)
(***************************************************************************)
OpChars == {"&&", "||", "|", "&", ";", ";;", "(", ")", "<", ">", ">>", ">|", "<>", ">&", "<&", "<<", "<<-", "((", "))"}
IsOpTok(t) == t.t \in OpChars /\ ~(t.t = ")" /\ (t.gap = "adj" \/ t.nlk = "cs"))   \* a ")" that closes $( ) is part of a word

(* a single blank between a and b may be dropped when one of them is an     *)
(* operator and the two do not fuse into another token                      *)
Removable(a, b) ==
    /\ b.pre = " "
    /\ IsOpTok(a) \/ IsOpTok(b)
    /\ ~(IsOpTok(a) /\ IsOpTok(b))                        \* "( (", "; ;", "& &", "< <" ...
    /\ ~(b.t \in {"<", ">", ">>", ">|", "<>", ">&", "<&", "<<", "<<-"} /\ a.t \in {"1", "2", "10", "3"})  \* IO_NUMBER
    /\ ~(a.t \in {"<<", "<<-"} /\ b.t = "-")
    /\ a.t # "((" /\ b.t # "))"

SetPre(ts, i, p) == [ts EXCEPT ![i].pre = p]

Variant(kind, at, ts, comments) == [kind |-> kind, at |-> at, src |-> Render(ts), comments |-> comments]

InsAfter(ts, i, t) == SubSeq(ts, 1, i) \o <<t>> \o SubSeq(ts, i + 1, Len(ts))   \* after position i

Repre(ts) == WithPre(ts)

\* the m-th smallest element of a set of numbers
NthOf(S, m) == CHOOSE x \in S : Cardinality({y \in S : y < x}) = m - 1

Variants(ts0) ==
    LET ts == WithPre(ts0)
        n  == Len(ts)
        idx == 1..n
        blank    == {Variant("blank", i, SetPre(ts, i, ts[i].pre \o "  "), <<>>) : i \in {j \in idx : ts[j].gap # "adj"}}
        tab      == {Variant("tab", i, SetPre(ts, i, ts[i].pre \o "\t"), <<>>) : i \in {j \in idx : ts[j].gap # "adj"}}
        noblank  == {Variant("noblank", i, SetPre(ts, i, ""), <<>>) : i \in {j \in 2..n : Removable(ts[j - 1], ts[j])}}
        \* the text of the comment varies with the position: plain, holding a "#", empty
        CmtText(i) == CASE i % 3 = 0 -> " c" \o ToString(i) \o " x" [] i % 3 = 1 -> " c" \o ToString(i) \o " # x#" [] OTHER -> ""
        comment  == {Variant("comment", i, SetPre(ts, i, ts[i].pre \o " #" \o CmtText(i)), <<CmtText(i)>>)
                       : i \in {j \in idx : IsNL(ts[j])}}
        \* a comment that starts in column 1 of a continuation line is still a trailing comment
        \* (only at separator newlines: see known finding F-C09-continuation-in-linebreak)
        comment1 == {Variant("comment-col1", i, SetPre(ts, i, ts[i].pre \o " \\\n# k" \o ToString(i)), <<" k" \o ToString(i)>>)
                       : i \in {j \in 2..n : IsNL(ts[j]) /\ ts[j].nlk = "sep" /\ ~IsNL(ts[j - 1]) /\ ~ts[j - 1].lb}}
        \* a comment in front of EVERY newline at once: all of them come back, in source order
        nls      == {j \in idx : IsNL(ts[j])}
        commentall == IF Cardinality(nls) < 2 THEN {}
                      ELSE {Variant("comment-all", 0,
                                    [j \in idx |-> IF IsNL(ts[j]) THEN [ts[j] EXCEPT !.pre = ts[j].pre \o " # c" \o ToString(j) \o " x"] ELSE ts[j]],
                                    [m \in 1..Cardinality(nls) |-> " c" \o ToString(NthOf(nls, m)) \o " x"])}
        cont     == {Variant("continuation", i, SetPre(ts, i, " \\\n"), <<>>) : i \in {j \in 2..n : ts[j].pre = " " /\ ~IsNL(ts[j])}}
        semi     == {Variant("semi2nl", i, Repre([ts EXCEPT ![i].t = "\n"]), <<>>) : i \in {j \in idx : ts[j].semi}}
        blankln  == {Variant("blankline", i, Repre(InsAfter(ts, i, NLTok)), <<>>) : i \in {j \in idx : ts[j].lb}}
        eofcmt   == IF n > 0 /\ IsNL(ts[n]) /\ HdList(ts, 1) = <<>>
                    THEN {Variant("comment-eof", n, SetPre(SubSeq(ts, 1, n - 1) \o <<[ts[n] EXCEPT !.t = ""]>>, n, " #eof"), <<"eof">>)}
                    ELSE {}
    IN  blank \cup tab \cup noblank \cup comment \cup commentall \cup comment1 \cup cont \cup semi \cup blankln \cup eofcmt

(* C09: the base program together with every single layout transformation *)
LayoutRec == LET c == CaseRec IN
             [src |-> c.src, sk |-> c.sk, dev |-> c.dev, drv |-> c.drv, ntok |-> c.ntok,
              variants |-> SetToSeq(Variants(toks))]
EmitLayout == Complete => PrintT(<<"CASE", ToJson(LayoutRec)>>)

(* the "same program" relation of C05 / C09: ; and newline separators are   *)
(* equivalent, list grouping is flattened, optional punctuation is ignored  *)
Norm(s) == SelectSeq(s, LAMBDA x : x \notin {"ln[", "]ln", "sep:;", "forsemi", "op:(", "op:;;"})
=============================================================================
