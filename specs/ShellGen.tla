------------------------------ MODULE ShellGen ------------------------------
(***************************************************************************)
(* Leftmost-derivation machine over ShellGrammar.                           *)
(*                                                                          *)
(*   form   pending symbols; its head is always a nonterminal (or it is     *)
(*          empty: the derivation is complete)                              *)
(*   toks   terminals emitted so far                                        *)
(*   sk     skeleton emitted so far (the expected position-free AST)        *)
(*   dev    number of non-minimal alternatives chosen (deviation budget)    *)
(*   drv    production ids used (coverage)                                  *)
(*                                                                          *)
(* Exhaustive BFS with MaxDev = k enumerates every program that differs     *)
(* from the minimal program `a` in at most k places: every production       *)
(* (k = 1), every pair of productions in every relative position (k = 2).   *)
(* -simulate samples long derivations (MaxDev large, depth bounded by       *)
(* MaxDepth).                                                               *)
(***************************************************************************)
EXTENDS ShellGrammar, Json, SequencesExt

CONSTANT MaxDev

VARIABLES form, toks, sk, dev, drv
vars == <<form, toks, sk, dev, drv>>

(* move leading terminals / markers of a form to toks / sk *)
RECURSIVE Flush(_, _, _)
Flush(f, ts, s) ==
    IF f = <<>> \/ Head(f).k = "n" THEN [form |-> f, toks |-> ts, sk |-> s]
    ELSE IF Head(f).k = "t" THEN Flush(Tail(f), Append(ts, Head(f)), s)
    ELSE Flush(Tail(f), ts, Append(s, Head(f).m))

Start == NT("prog", 0, TRUE, FALSE, FALSE, "")

Init == /\ form = <<Start>> /\ toks = <<>> /\ sk = <<>> /\ dev = 0 /\ drv = <<>>

Expand(i) ==
    LET nt  == Head(form)
        alt == Alts(nt)[i]
        fl  == Flush(alt.r \o Tail(form), toks, sk)
    IN  /\ dev + alt.c <= MaxDev
        /\ (nt.d >= MaxDepth => alt.c = 0)
        /\ form' = fl.form /\ toks' = fl.toks /\ sk' = fl.sk
        /\ dev' = dev + alt.c
        /\ drv' = Append(drv, nt.n \o "#" \o ToString(i))

Next == form # <<>> /\ \E i \in 1..Len(Alts(Head(form))) : Expand(i)

Complete == form = <<>>

(***************************************************************************)
(* Rendering.  Every token gets `pre`, the text printed before it.          *)
(***************************************************************************)
IsNL(t) == t.t = "\n"

WithPre(ts) == [i \in 1..Len(ts) |->
                 [t |-> ts[i].t, gap |-> ts[i].gap, lb |-> ts[i].lb, semi |-> ts[i].semi, hd |-> ts[i].hd,
                  pre |-> IF i = 1 \/ ts[i].gap = "adj" \/ IsNL(ts[i]) \/ IsNL(ts[i - 1]) THEN "" ELSE " "]]

(* text of the pending here-documents, in order *)
RECURSIVE HdText(_)
HdText(hs) == IF hs = <<>> THEN "" ELSE Head(hs).body \o Head(hs).dl \o "\n" \o HdText(Tail(hs))

RECURSIVE RenderFrom(_, _, _)
RenderFrom(ts, i, pend) ==
    IF i > Len(ts) THEN ""
    ELSE LET t == ts[i] IN
         IF IsNL(t) THEN t.pre \o "\n" \o HdText(pend) \o RenderFrom(ts, i + 1, <<>>)
         ELSE t.pre \o t.t \o RenderFrom(ts, i + 1, pend \o t.hd)

Render(ts) == RenderFrom(ts, 1, <<>>)

(* here-documents in source order: [body, dl] *)
RECURSIVE HdList(_, _)
HdList(ts, i) == IF i > Len(ts) THEN <<>> ELSE ts[i].hd \o HdList(ts, i + 1)

CaseRec == LET ts == WithPre(toks) IN
           [src |-> Render(ts), sk |-> sk, dev |-> dev, drv |-> drv, ntok |-> Len(toks)]

EmitCase == Complete => PrintT(<<"CASE", ToJson(CaseRec)>>)

(* the "same program" relation of C05 / C09: ; and newline separators are   *)
(* equivalent, list grouping is flattened, optional punctuation is ignored  *)
Norm(s) == SelectSeq(s, LAMBDA x : x \notin {"ln[", "]ln", "sep:;", "forsemi", "op:(", "op:;;"})
=============================================================================
