------------------------------- MODULE GlobGen -------------------------------
(* Trees x patterns for C16: every tree over five top-level names (plain,   *)
(* two characters, dot file, a pattern character, a trailing backslash) with *)
(* seven shapes each (three for the last), every pattern of one or two       *)
(* components from the component pool, with and without trailing slash.      *)
(* Two levels (the first two names in Init, the rest in Next) so that TLC's  *)
(* workers share the computation of the expected sets.                       *)
EXTENDS Glob, Json

TopNames == << <<"a">>, <<"a", "b">>, <<".", "h">>, <<"b", "*">>, <<"a", "\\">> >>
Shapes == {"absent", "file", "dir", "dir+a", "dir+.c", "link", "ldir+a"}     \* ldir+a: a symbolic link to a directory that holds a
ShapesOf(i) == IF i = 5 THEN {"absent", "file", "dir+a"} ELSE Shapes
Trees == {t \in [1..Len(TopNames) -> Shapes] : \A i \in 1..Len(TopNames) : t[i] \in ShapesOf(i)}
Comps == << <<"a">>, <<"*">>, <<"?">>, <<"a", "*">>, <<".", "*">>, <<"[", "a", "b", "]", "*">>, <<"\\", "a">>, <<"a", "?">>,
            <<"b", "\\", "*">>, <<"*", "b">>, <<"?", "?">>, <<"a", "\\", "\\">>,
            <<"\\", "a", "*">>, <<"\\", ".", "*">>,
            <<"a", "\\">> >>      \* an escaped ordinary character / period followed by a wildcard; a trailing backslash (stands for itself)

CONSTANT Sel               \* the indices of the trees to emit (the quick tier samples)
ShapeSeq == <<"absent", "file", "dir", "dir+a", "dir+.c", "link", "ldir+a">>
ShapeIdx(sh) == CHOOSE i \in 1..7 : ShapeSeq[i] = sh
RECURSIVE IndexFrom(_, _)
IndexFrom(t, i) == IF i > Len(TopNames) THEN 0 ELSE (ShapeIdx(t[i]) - 1) + 7 * IndexFrom(t, i + 1)
TreeIndex(t) == IndexFrom(t, 1)

VARIABLES tree, done      \* [1..Len(TopNames) -> Shapes]; the tree is complete
Init == done = FALSE /\ tree \in {t \in Trees : \A i \in 3..Len(TopNames) : t[i] = "absent"}
Next == ~done /\ done' = TRUE /\ tree' \in {t \in Trees : t[1] = tree[1] /\ t[2] = tree[2] /\ TreeIndex(t) \in Sel}

FS == LET ents == UNION {
               CASE tree[i] = "absent" -> {}
                 [] tree[i] = "file"   -> {<< <<TopNames[i]>>, "file" >>}
                 [] tree[i] = "link"   -> {<< <<TopNames[i]>>, "link" >>}
                 [] tree[i] = "dir"    -> {<< <<TopNames[i]>>, "dir" >>}
                 [] tree[i] = "dir+a"  -> {<< <<TopNames[i]>>, "dir" >>, << <<TopNames[i], <<"a">> >>, "file" >>}
                 \* for the reference a link to a directory IS that directory (the driver creates the link; kind "ldir")
                 [] tree[i] = "ldir+a" -> {<< <<TopNames[i]>>, "ldir" >>, << <<TopNames[i], <<"a">> >>, "lfile" >>}
                 [] OTHER              -> {<< <<TopNames[i]>>, "dir" >>, << <<TopNames[i], <<".", "c">> >>, "file" >>}
               : i \in 1..Len(TopNames)}
      IN  [p \in {e[1] : e \in ents} |-> (CHOOSE e \in ents : e[1] = p)[2]]

Pats == {[comps |-> <<Comps[i]>>, slash |-> s, abs |-> FALSE, rep |-> 1] : i \in 1..Len(Comps), s \in BOOLEAN}
        \cup {[comps |-> <<Comps[i], Comps[j]>>, slash |-> s, abs |-> FALSE, rep |-> 1] : i \in 1..Len(Comps), j \in 1..Len(Comps), s \in BOOLEAN}
        \* absolute patterns and repeated slashes over the first six components
        \cup {[comps |-> <<Comps[i], Comps[j]>>, slash |-> s, abs |-> a, rep |-> r] : i \in 1..6, j \in 1..6, s \in BOOLEAN,
                                                                                   a \in BOOLEAN, r \in {1, 2}}
        \cup {[comps |-> <<Comps[i]>>, slash |-> s, abs |-> TRUE, rep |-> r] : i \in 1..Len(Comps), s \in BOOLEAN, r \in {1, 2}}

\* a component that ends in an unescaped backslash can only be the end of the pattern (before a slash it would escape the slash)
TrailBS == <<"a", "\\">>
Usable(pt) == \A i \in 1..Len(pt.comps) : pt.comps[i] = TrailBS => (i = Len(pt.comps) /\ ~pt.slash)

\* POSIX leaves a trailing backslash open: it stands for itself, or it is dropped
DropBS(pt) == [pt EXCEPT !.comps = [i \in 1..Len(pt.comps) |-> IF pt.comps[i] = TrailBS THEN <<"a">> ELSE pt.comps[i]]]

Emit == ~done \/ PrintT(<<"CASE", ToJson([tree |-> tree, index |-> TreeIndex(tree),
                                 entries |-> SetToSeq({[path |-> p, kind |-> FS[p]] : p \in DOMAIN FS}),
                                 pats |-> SetToSeq({[comps |-> pt.comps, slash |-> pt.slash, abs |-> pt.abs, rep |-> pt.rep, exp |-> SetToSeq(Expected(FS, pt)),
                                                     expstr |-> SetToSeq(ExpectedStrings(FS, pt)),
                                                     exp2 |-> SetToSeq(Expected(FS, DropBS(pt))), expstr2 |-> SetToSeq(ExpectedStrings(FS, DropBS(pt))),
                                                     wtext |-> WordText(pt), expw |-> SetToSeq(ExpectedWord(FS, pt)), expw2 |-> SetToSeq(ExpectedWord(FS, DropBS(pt)))] : pt \in {q \in Pats : Usable(q)}})])>>)
=============================================================================
