------------------------------- MODULE GlobGen -------------------------------
(* Trees x patterns for C16: every tree over three top-level names with six *)
(* shapes each, every pattern of one or two components from the component   *)
(* pool, with and without trailing slash.                                   *)
EXTENDS Glob, Json

TopNames == << <<"a">>, <<"a", "b">>, <<".", "h">>, <<"b", "*">> >>
Shapes == {"absent", "file", "dir", "dir+a", "dir+.c", "link"}
Comps == << <<"a">>, <<"*">>, <<"?">>, <<"a", "*">>, <<".", "*">>, <<"[", "a", "b", "]", "*">>, <<"\\", "a">>, <<"a", "?">>,
            <<"b", "\\", "*">>, <<"*", "b">>, <<"?", "?">> >>

VARIABLE tree      \* [1..Len(TopNames) -> Shapes]
Init == tree \in [1..Len(TopNames) -> Shapes]
Next == FALSE /\ tree' = tree

FS == LET ents == UNION {
               CASE tree[i] = "absent" -> {}
                 [] tree[i] = "file"   -> {<< <<TopNames[i]>>, "file" >>}
                 [] tree[i] = "link"   -> {<< <<TopNames[i]>>, "link" >>}
                 [] tree[i] = "dir"    -> {<< <<TopNames[i]>>, "dir" >>}
                 [] tree[i] = "dir+a"  -> {<< <<TopNames[i]>>, "dir" >>, << <<TopNames[i], <<"a">> >>, "file" >>}
                 [] OTHER              -> {<< <<TopNames[i]>>, "dir" >>, << <<TopNames[i], <<".", "c">> >>, "file" >>}
               : i \in 1..Len(TopNames)}
      IN  [p \in {e[1] : e \in ents} |-> (CHOOSE e \in ents : e[1] = p)[2]]

Pats == {[comps |-> <<Comps[i]>>, slash |-> s] : i \in 1..Len(Comps), s \in BOOLEAN}
        \cup {[comps |-> <<Comps[i], Comps[j]>>, slash |-> s] : i \in 1..Len(Comps), j \in 1..Len(Comps), s \in BOOLEAN}

Emit == PrintT(<<"CASE", ToJson([tree |-> tree,
                                 entries |-> SetToSeq({[path |-> p, kind |-> FS[p]] : p \in DOMAIN FS}),
                                 pats |-> SetToSeq({[comps |-> pt.comps, slash |-> pt.slash, exp |-> SetToSeq(Expected(FS, pt))] : pt \in Pats})])>>)
=============================================================================
