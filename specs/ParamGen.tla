------------------------------ MODULE ParamGen -------------------------------
(* The full product of C13 as a set of cases; TLC enumerates it (one state   *)
(* per parameter kind / state, the rest of the product is printed from it). *)
EXTENDS Param, Json
VARIABLE i
PKinds == <<[p |-> "v", vst |-> "unset"], [p |-> "v", vst |-> "null"], [p |-> "v", vst |-> "x"], [p |-> "v", vst |-> "xy"], [p |-> "v", vst |-> "mb"], [p |-> "v", vst |-> "bs2"], [p |-> "big", vst |-> "unset"],
            [p |-> "1", vst |-> "unset"], [p |-> "@", vst |-> "unset"], [p |-> "*", vst |-> "unset"],
            [p |-> "#", vst |-> "unset"], [p |-> "-", vst |-> "unset"], [p |-> "!", vst |-> "unset"]>>
ArgSets == << <<>>, <<"">>, <<"x">>, <<"x", "", "yz">>, <<"mb", "x">> >>
WordOps == {":-", "-", ":=", "=", ":?", "?", ":+", "+"}
PatOps == {"%", "%%", "#", "##"}
Cases(k) ==
    {[p |-> PKinds[k].p, vst |-> PKinds[k].vst, args |-> ArgSets[a], op |-> op, w |-> w, q |-> q, ifs |-> ifs, nounset |-> nu] :
        a \in 1..Len(ArgSets), op \in WordOps \cup PatOps \cup {"", "len"}, w \in {"w", "uv", "at", "side", "pat", "patbs", "none"},
        q \in {"none", "dq", "wq"}, ifs \in {"default", "comma", "empty", "mb", "digit"}, nu \in BOOLEAN}
Valid(c) == /\ (c.op \in WordOps) <=> (c.w \in {"w", "uv", "side", "at"})
            /\ (c.w = "at") => (c.op \in {":-", "-", ":+", "+"} /\ c.q = "none")
            /\ (c.op \in PatOps) <=> (c.w \in {"pat", "patbs"})
            /\ (c.q = "wq") => (c.w \in {"w", "uv"})
            /\ (c.p \in {"v", "#", "!", "big", "-"}) => c.args = <<"x">>          \* the positional parameters do not matter
Init == i = 1
Next == i < Len(PKinds) /\ i' = i + 1
Emit == \A c \in {x \in Cases(i) : Valid(x)} : PrintT(<<"CASE", ToJson(c)>>)
=============================================================================
