--------------------------- MODULE PatternCheck ----------------------------
(* Validation of observation records of pattern.Match against Pattern.tla  *)
(* (C12).  Records are visited as a binary heap so that all workers share  *)
(* the work; a failing record is printed, never an invariant violation, so *)
(* that every failing record is known.                                     *)
EXTENDS Pattern, Json, IOUtils

Recs == ndJsonDeserialize(IOEnv.VERIF_OBS)
N == Len(Recs)

VARIABLE k
Init == k = 1
Next == \E c \in {2 * k, 2 * k + 1} : c <= N /\ k' = c

Chk == k > N \/ Holds(Recs[k]) \/ PrintT(<<"MISMATCH", k>>)
=============================================================================
