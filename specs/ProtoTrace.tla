----------------------------- MODULE ProtoTrace ------------------------------
(***************************************************************************)
(* Trace validation: event traces recorded from the real lexer/parser pair  *)
(* (the verif hooks, totally ordered by the gated scheduler of the harness) *)
(* are checked against Proto.tla.  Every event must be an enabled action of *)
(* the specification in the state reached so far (silent rendezvous steps   *)
(* may be interleaved), and every invariant of Proto.tla must hold in every *)
(* state on the way.                                                        *)
(*                                                                          *)
(* Several traces are validated in one run: Traces is a sequence of traces; *)
(* after the last event of a trace the state is reset.                      *)
(***************************************************************************)
EXTENDS Proto, Json, IOUtils

Traces == ndJsonDeserialize(IOEnv.VERIF_OBS)      \* each line: [ev |-> <<[t, id, pt, n], ...>>]
NT == Len(Traces)

VARIABLES tr,     \* index of the trace being validated
          i,      \* next event
          thrL    \* thread (goroutine) of each lexer, learnt at L.start
tvars == <<vars, tr, i, thrL>>

Ev == Traces[tr].ev[i]
More == tr <= NT /\ i <= Len(Traces[tr].ev)

TInit == Init /\ tr = 1 /\ i = 1 /\ thrL = [l \in Lexers |-> ""]

Step == i' = i + 1 /\ tr' = tr

(* the lexer whose goroutine is thread t (0: none, i.e. the caller) *)
LexerOf(t) == IF \E l \in Lexers : thrL[l] = t THEN CHOOSE l \in Lexers : thrL[l] = t ELSE 0

Event ==
    /\ More
    /\ LET e == Ev l == e.id IN
       /\ l \in Lexers
       /\ CASE e.pt = "L.new"    -> L_New(l, LexerOf(e.t)) /\ UNCHANGED thrL
            [] e.pt = "L.start"  -> L_Start(l) /\ thrL' = [thrL EXCEPT ![l] = e.t]
            [] e.pt = "L.wait"   -> L_Wait(l) /\ UNCHANGED thrL
            [] e.pt = "L.go"     -> L_Go(l) /\ UNCHANGED thrL
            [] e.pt = "L.bail"   -> L_Bail(l) /\ UNCHANGED thrL
            [] e.pt = "L.read"   -> L_Read(l) /\ UNCHANGED thrL
            [] e.pt = "L.emit"   -> L_Emit(l) /\ UNCHANGED thrL
            [] e.pt = "L.exit"   -> L_Exit(l) /\ UNCHANGED thrL
            [] e.pt = "H.inc"    -> L_HdInc(l) /\ UNCHANGED thrL
            [] e.pt = "H.pop"    -> lpc[l] = "scanning" /\ UNCHANGED <<vars, thrL>>
            [] e.pt = "H.got"    -> L_HdGot(l) /\ UNCHANGED thrL
            [] e.pt = "H.wait"   -> L_HdWait(l) /\ UNCHANGED thrL
            [] e.pt = "H.push"   -> ppc[l] \in {"act", "eof"} /\ UNCHANGED <<vars, thrL>>
            [] e.pt = "H.pushed" -> P_HdPush(l) /\ UNCHANGED thrL
            [] e.pt = "P.set"    -> ppc[l] \in {"act", "eof"} /\ UNCHANGED <<vars, thrL>>
            [] e.pt = "E.error"  -> /\ UNCHANGED thrL
                                    /\ \E eofmsg \in BOOLEAN :
                                         IF thrL[l] = e.t THEN L_Error(l, i, eofmsg) ELSE P_Error(l, i, eofmsg)
            [] e.pt = "P.req"    -> P_Req(l) /\ UNCHANGED thrL
            [] e.pt = "P.tok"    -> P_Tok(l) /\ UNCHANGED thrL
            [] e.pt = "P.recv"   -> P_Recv(l, e.n) /\ UNCHANGED thrL
            [] e.pt = "P.parsed" -> P_Parsed(l) /\ UNCHANGED thrL
            [] e.pt = "P.joined" -> P_Joined(l) /\ UNCHANGED thrL
            [] OTHER             -> FALSE
    /\ Step

Silent == /\ More
          /\ \E l \in Lexers : X_Req(l) \/ X_Tok(l) \/ X_HdWake(l) \/ X_Close(l)
          /\ UNCHANGED <<tr, i, thrL>>

(* all events of the trace consumed: closes may still be pending; then start the next trace *)
Reset == /\ tr <= NT /\ i > Len(Traces[tr].ev)
         /\ \A l \in Lexers : lpc[l] # "exiting"
         /\ tr' = tr + 1 /\ i' = 1 /\ thrL' = [l \in Lexers |-> ""]
         /\ lpc' = [l \in Lexers |-> "absent"] /\ ppc' = [l \in Lexers |-> "absent"] /\ par' = [l \in Lexers |-> 0]
         /\ cancel' = [l \in Lexers |-> FALSE] /\ tokClosed' = [l \in Lexers |-> FALSE] /\ doneClosed' = [l \in Lexers |-> FALSE]
         /\ err' = [l \in Lexers |-> NoErr]
         /\ hn' = [l \in Lexers |-> 0] /\ hq' = [l \in Lexers |-> 0] /\ hc' = [l \in Lexers |-> 0]
         /\ reads' = 0 /\ nlex' = 0 /\ ret' = FALSE /\ res' = <<>>

TNext == Event \/ Silent \/ Reset
TSpec == TInit /\ [][TNext]_tvars

(* violated exactly when every trace has been consumed: acceptance *)
NotAllAccepted == tr <= NT

(* progress mark for the diagnosis of a rejected trace: trace * 10^6 + event *)
Mark == tr * 1000000 + i
HighWater == IF TLCGet(1) < Mark THEN TLCSet(1, Mark) ELSE TRUE
ASSUME TLCSet(1, 0)
Report == PrintT(<<"HWM", TLCGet(1)>>)

(* what the end of a trace must look like (the call has returned, everything is done) *)
EndOK == (tr <= NT /\ i > Len(Traces[tr].ev) /\ \A l \in Lexers : lpc[l] # "exiting") => Finished
=============================================================================
