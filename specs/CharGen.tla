------------------------------ MODULE CharGen -------------------------------
(* Every string up to MaxLen symbols over an alphabet (BFS, one state per   *)
(* string): the character-level input space used by the totality /          *)
(* robustness / position checks (C01, C04, C19).  Symbols name one          *)
(* character each (NL, SP, TAB, DQ, U1, U2 as in Pattern.tla).              *)
EXTENDS Integers, Sequences, TLC, Json
CONSTANTS Alpha, MaxLen
VARIABLE str
Init == str = <<>>
Next == Len(str) < MaxLen /\ \E i \in 1..Len(Alpha) : str' = Append(str, Alpha[i])
Emit == PrintT(<<"STR", ToJson(str)>>)
=============================================================================
