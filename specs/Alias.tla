-------------------------------- MODULE Alias --------------------------------
(***************************************************************************)
(* Alias substitution (XCU 2.3.1) as a token-rewriting machine (C17).       *)
(*                                                                          *)
(*   inp     tokens still to be examined: [tok, org, chk]                   *)
(*             org  aliases whose expansion produced the token              *)
(*             chk  the token follows an alias value that ended in a blank  *)
(*   out     tokens of the resulting text                                   *)
(*   cmdpos  the next token is in command position                          *)
(*   respos  ... and a reserved word would be recognised there (not after   *)
(*           a prefix assignment: `x=1 if` runs the command `if`)           *)
(*                                                                          *)
(* A token is replaced when it is examined (command position or chk), is    *)
(* an unquoted word that names an alias, and is not inside its own          *)
(* expansion.  The first token of the value is examined in the same         *)
(* position; when the value ends in a blank the token after the expansion   *)
(* is examined too.  Reserved words, assignment words, quoted words and     *)
(* words in other positions are copied.                                     *)
(*                                                                          *)
(* TLC runs the machine for EVERY alias table over the name universe and    *)
(* EVERY source up to a bound: termination (the machine reaches inp = <<>>  *)
(* in every run, no run grows beyond Bound), and the result of each run is  *)
(* a conformance case: parse(table, source) = parse(no aliases, result).    *)
(***************************************************************************)
EXTENDS Integers, Sequences, FiniteSets, TLC, Json

CONSTANTS Names,       \* alias names, e.g. {"a", "b"}
          ValToks,     \* tokens that may occur in alias values (sequence)
          SrcToks,     \* tokens that may occur in sources (sequence)
          MaxVal, MaxSrc, Bound

VARIABLES table, src, inp, out, cmdpos, respos, steps
avars == <<table, src, inp, out, cmdpos, respos, steps>>

Reserved == {"if", "then", "else", "elif", "fi", "do", "done", "for", "case", "esac", "while", "until", "in", "{", "}", "!"}
Operators == {";", "|", "&&", "||", "&", "(", ")"}
IsAssign(t) == t \in {"x=1"}
IsQuoted(t) == t \in {"'a'", "\\a", "\"b\""}

(* tokens after which the next token is in command position *)
OpensCmd(t) == t \in Operators \cup {"if", "then", "else", "elif", "do", "while", "until", "{", "!"}

Count(s, t) == Cardinality({i \in 1..Len(s) : s[i] = t})
RECURSIVE SeqsUpTo(_, _)
SeqsUpTo(S, n) == IF n = 0 THEN {<<>>} ELSE SeqsUpTo(S, n - 1) \cup {Append(s, S[i]) : s \in SeqsUpTo(S, n - 1), i \in 1..Len(S)}

\* an empty value is allowed (with blank: the value is a single blank)
Values == [val : SeqsUpTo(ValToks, MaxVal), blank : BOOLEAN]
Tables == UNION {[D -> Values] : D \in SUBSET Names}
\* the sources (overridden by a fixed list for the longer programs: for / case)
Sources == SeqsUpTo(SrcToks, MaxSrc)

Tok(t, org, chk) == [tok |-> t, org |-> org, chk |-> chk]

Init == /\ table \in Tables
        /\ src \in Sources
        /\ inp = [i \in 1..Len(src) |-> Tok(src[i], {}, FALSE)]
        /\ out = <<>> /\ cmdpos = TRUE /\ respos = TRUE /\ steps = 0

\* the word after a redirection operator is its target: never replaced, and the command prefix goes on after it
IsTarget == Len(out) > 0 /\ out[Len(out)] = "<"
\* the third word of a case / for command: there "in" is the reserved word
ThirdPos == Len(out) >= 2 /\ out[Len(out) - 1] \in {"case", "for"}
Eligible(h) == /\ ~IsTarget
               /\ ~(ThirdPos /\ h.tok = "in")
               /\ cmdpos \/ h.chk
               /\ h.tok \in DOMAIN table
               /\ h.tok \notin h.org
               /\ ~IsQuoted(h.tok) /\ ~(respos /\ h.tok \in Reserved) /\ ~IsAssign(h.tok)

Step ==
    /\ inp # <<>>
    /\ LET h == Head(inp) rest == Tail(inp) IN
       IF Eligible(h)
       THEN LET v   == table[h.tok]
                new == [i \in 1..Len(v.val) |-> Tok(v.val[i], h.org \cup {h.tok}, i = 1 /\ h.chk)]
                r2  == IF v.blank /\ rest # <<>> THEN <<[Head(rest) EXCEPT !.chk = TRUE]>> \o Tail(rest) ELSE rest
            IN  /\ inp' = new \o r2
                /\ UNCHANGED <<out, cmdpos, respos>>
       ELSE /\ inp' = rest
            /\ out' = Append(out, h.tok)
            /\ IF h.tok = "<" \/ IsTarget THEN cmdpos' = cmdpos /\ respos' = FALSE      \* a redirection in the prefix: still in command position
               ELSE
               LET closes == h.tok = ")" /\ Count(out, "$(") > Count(out, ")")             \* the end of a command substitution: back inside a word
                   opens == ~closes /\ (h.tok \in Operators \/ h.tok = "$(" \/ (cmdpos /\ respos /\ OpensCmd(h.tok))) IN   \* a reserved word counts only where it is recognised
               /\ cmdpos' = (opens \/ (IsAssign(h.tok) /\ cmdpos))                             \* still in the command prefix
               /\ respos' = opens
    /\ steps' = steps + 1
    /\ UNCHANGED <<table, src>>

Next == Step
Spec == Init /\ [][Next]_avars /\ WF_avars(Next)

Done == inp = <<>>

(* termination: no run grows without bound, every run finishes *)
Bounded == Len(inp) + Len(out) <= Bound /\ steps <= Bound
Terminates == <>Done

(* a name is never expanded inside its own expansion *)
NoSelfExpansion == \A i \in 1..Len(inp) : Cardinality(inp[i].org) <= Cardinality(Names)

TableRec == [n \in DOMAIN table |-> table[n]]
Emit == Done => PrintT(<<"CASE", ToJson([names |-> [n \in DOMAIN table |-> n], vals |-> [n \in DOMAIN table |-> table[n]], src |-> src, out |-> out])>>)
=============================================================================
