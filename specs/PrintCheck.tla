----------------------------- MODULE PrintCheck -----------------------------
(* Validation of printer observations.  WHICH selects the property.        *)
EXTENDS PrintRT, IOUtils, TLC
CONSTANT WHICH
Recs == ndJsonDeserialize(IOEnv.VERIF_OBS)
N == Len(Recs)
VARIABLE k
Init == k = 0
Next == k < N /\ k' = k + 1
EmitConfigs == k # 0 \/ PrintT(<<"CONFIGS", ToJson(Configs)>>)
Chk == \/ k = 0
       \/ (WHICH = "C05" /\ C05Holds(Recs[k]))
       \/ (WHICH = "C18" /\ C18Holds(Recs[k]))
       \/ PrintT(<<"MISMATCH", k>>)
ASSUME ConfigsComplete
=============================================================================
