------------------------------- MODULE Split --------------------------------
(***************************************************************************)
(* Field splitting (XCU 2.6.5 as stated by property C14): reference         *)
(* semantics for ExecEnv.Expand(word, 0) with pathname expansion disabled.  *)
(*                                                                          *)
(* A word is a sequence of positions [c |-> symbol, q |-> quoted?]; an      *)
(* empty pair of quotes is the position [c |-> "", q |-> TRUE].  IFS is a   *)
(* set of symbols.  Two descriptions are given and TLC checks that they     *)
(* agree on every word up to a bound (SplitModel):                          *)
(*   Split    the operational left-to-right machine with the white-space /  *)
(*            non-white-space delimiter rules of the statement;             *)
(*   Runs     the declarative reading: since empty fields without quoted    *)
(*            material are dropped, the fields are exactly the maximal      *)
(*            runs of non-delimiter positions.                              *)
(***************************************************************************)
EXTENDS Integers, Sequences, FiniteSets, SequencesExt, TLC

WS == {"SP", "TAB", "NL"}
DefaultIFS == {"SP", "TAB", "NL"}

IsDelim(x, ifs) == ~x.q /\ x.c # "" /\ x.c \in ifs
IsWs(c) == c \in WS

NoField == [on |-> FALSE, idx |-> <<>>]

(* operational machine; a field is the sequence of the positions it holds *)
RECURSIVE SplitFrom(_, _, _, _, _, _)
SplitFrom(w, i, ifs, fields, cur, st) ==
    IF i > Len(w) THEN (IF cur.on THEN Append(fields, cur.idx) ELSE fields)
    ELSE LET x == w[i] IN
      IF ~IsDelim(x, ifs)
      THEN LET fl == IF st = "after_ws" THEN Append(fields, cur.idx) ELSE fields
               c0 == IF st = "after_ws" \/ ~cur.on THEN <<>> ELSE cur.idx
           IN  SplitFrom(w, i + 1, ifs, fl, [on |-> TRUE, idx |-> Append(c0, i)], "infield")
      ELSE IF IsWs(x.c)
      THEN \* IFS white space: ends a field, ignored at both ends and next to other delimiters
           SplitFrom(w, i + 1, ifs, fields, cur, IF st = "infield" THEN "after_ws" ELSE st)
      ELSE \* any other IFS character delimits on its own
           SplitFrom(w, i + 1, ifs, Append(fields, IF cur.on THEN cur.idx ELSE <<>>), NoField, "after_nonws")

Text(w, f)      == [j \in 1..Len(f) |-> w[f[j]].c]
HasQuoted(w, f) == \E j \in 1..Len(f) : w[f[j]].q
NonEmpty(w, f)  == HasQuoted(w, f) \/ \E j \in 1..Len(f) : w[f[j]].c # ""

(* fields as index sequences, empty ones without quoted material dropped *)
SplitIdx(w, ifs) ==
    IF ifs = {} THEN (IF Len(w) = 0 THEN <<>> ELSE SelectSeq(<<[j \in 1..Len(w) |-> j]>>, LAMBDA f : NonEmpty(w, f)))
    ELSE SelectSeq(SplitFrom(w, 1, ifs, <<>>, NoField, "start"), LAMBDA f : NonEmpty(w, f))

(* the observable result: one sequence of symbols per field ("" markers vanish) *)
Flat(w, f) == SelectSeq(Text(w, f), LAMBDA c : c # "")
Split(w, ifs) == LET fs == SplitIdx(w, ifs) IN [k \in 1..Len(fs) |-> Flat(w, fs[k])]

(***************************************************************************)
(* Declarative statement of the property.                                   *)
(***************************************************************************)
SplitOK(w, ifs, fs) ==
    LET keep == {i \in 1..Len(w) : ~IsDelim(w[i], ifs)}
        inF(k) == {fs[k][j] : j \in 1..Len(fs[k])}
    IN  \* no delimiter inside a field, every other position in exactly one field
        /\ \A k \in 1..Len(fs) : inF(k) \subseteq keep /\ inF(k) # {}
        /\ \A i \in keep : Cardinality({k \in 1..Len(fs) : i \in inF(k)}) = 1
        \* original order, nothing duplicated
        /\ \A k \in 1..Len(fs) : \A j \in 1..(Len(fs[k]) - 1) : fs[k][j] < fs[k][j + 1]
        /\ \A k \in 1..(Len(fs) - 1) : fs[k][Len(fs[k])] < fs[k + 1][1]
        \* cut exactly at delimiters: two kept positions share a field iff no delimiter lies between them
        /\ \A i, j \in keep : i < j =>
              ((\E k \in 1..Len(fs) : i \in inF(k) /\ j \in inF(k))
                 <=> ~\E d \in (i + 1)..(j - 1) : IsDelim(w[d], ifs))

(***************************************************************************)
(* Segment alphabet of the generator: id -> position                        *)
(***************************************************************************)
Chars == <<"x", "SP", "TAB", ",", "1", "U1", "CR">>     \* CR: white space that is in no IFS setting
SegKinds == [i \in 1..(2 * Len(Chars) + 1) |->
               IF i <= Len(Chars) THEN [c |-> Chars[i], q |-> FALSE]
               ELSE IF i <= 2 * Len(Chars) THEN [c |-> Chars[i - Len(Chars)], q |-> TRUE]
               ELSE [c |-> "", q |-> TRUE]]

(* IFS settings: name -> set of symbols ("unset" behaves as the default) *)
IFSNames == <<"unset", "default", "sp_comma", "comma", "one", "empty", "sp_u1", "comma_one", "sp_only">>
IFSOf(n) == CASE n = "unset"       -> DefaultIFS
              [] n = "default"     -> DefaultIFS
              [] n = "sp_comma"    -> {"SP", ","}
              [] n = "comma"       -> {","}
              [] n = "one"       -> {"1"}
              [] n = "empty"       -> {}
              [] n = "sp_u1"       -> {"SP", "U1"}
              [] n = "comma_one" -> {",", "1"}
              [] n = "sp_only"   -> {"SP"}                 \* a proper subset of the default white space: a tab is an ordinary character

WordOf(segs) == [i \in 1..Len(segs) |-> SegKinds[segs[i]]]

(***************************************************************************)
(* Property predicate for an observation record:                            *)
(*   rec.segs  segment ids, rec.obs[variant][ifsname] = observed fields     *)
(***************************************************************************)
Expected(segs) == [i \in 1..Len(IFSNames) |-> Split(WordOf(segs), IFSOf(IFSNames[i]))]

(* the word behind an unquoted "~/" with HOME = "x,1": the directory is not split (its characters count as quoted) *)
HomeQ == <<[c |-> "x", q |-> TRUE], [c |-> ",", q |-> TRUE], [c |-> "1", q |-> TRUE], [c |-> "/", q |-> FALSE]>>
ExpectedTilde(segs) == [i \in 1..Len(IFSNames) |-> Split(HomeQ \o WordOf(segs), IFSOf(IFSNames[i]))]

Holds(rec) == /\ rec.obs.lit = rec.exp
              /\ rec.obs.var = rec.exp
=============================================================================
