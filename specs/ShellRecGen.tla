---------------------------- MODULE ShellRecGen -----------------------------
(***************************************************************************)
(* Case generator for C03: BFS over the VIABLE PREFIXES of the dialect      *)
(* (token strings that ShellRec classifies Incomplete, or Accept with every *)
(* token consumed and the command line not yet ended).  Every viable prefix *)
(* extended by one token of the alphabet is a case: it is again viable, or  *)
(* accepted, or it ends in the first offending token.  Broken words         *)
(* (unterminated quotes and expansions) are appended to viable prefixes     *)
(* only.  With Mutations = TRUE every accepted string additionally yields   *)
(* its single-token deletions, duplications, adjacent swaps, insertions and *)
(* substitutions (also of a fixed list of base programs, one per compound   *)
(* construct: InitBases),                                                   *)
(* each classified by ShellRec.                                             *)
(***************************************************************************)
EXTENDS ShellRec, Json, SequencesExt

CONSTANTS Alpha,      \* sequence of tokens
          Broken,     \* sequence of lexically unterminated words
          MaxLen,
          Mutations   \* BOOLEAN
VARIABLE toks

IsBroken(x) == \E i \in 1..Len(Broken) : Broken[i] = x
IsArithWord(x) == x \in {"((1) ))", "((1)", "$((1) ))"}
Ended(t) == Len(t) > 0 /\ t[Len(t)] = "\n"

Viable(t) == ~(Len(t) > 0 /\ IsBroken(t[Len(t)])) /\
             LET r == Rec(t) IN \/ r.cls = "incomplete"
                                \/ (r.cls = "accept" /\ r.n = Len(t) /\ ~Ended(t))

Init == toks = <<>>
Stutter == FALSE /\ toks' = toks
Next == /\ Viable(toks)
        /\ Len(toks) < MaxLen
        /\ \/ \E i \in 1..Len(Alpha)  : toks' = Append(toks, Alpha[i])
           \/ \E i \in 1..Len(Broken) :
                 /\ toks' = Append(toks, Broken[i])
                 \* "((" is arithmetic only outside parentheses (known finding arith-in-paren):
                 \* an unbalanced (( )) word is ill-formed only there
                 /\ (IsArithWord(Broken[i]) => \A j \in 1..Len(toks) : toks[j] # "(")

(* tokens of this alphabet that the dialect splits further: IO_NUMBER + operator, (( word )) *)
SubStarts(x, line, col) ==
    CASE x = "2>"    -> << <<line, col + 1>> >>
      [] x = "((1))" -> << <<line, col + 1>>, <<line, col + 2>>, <<line, col + 3>>, <<line, col + 4>> >>
      [] OTHER       -> <<>>

(* text: tokens joined by one blank, no blanks around newlines *)
RECURSIVE Layout(_, _, _, _, _)
\* returns [src, starts, offs, lines] ; off = runes so far, line/col = position of the next character
Layout(t, i, acc, off, lc) ==
    IF i > Len(t) THEN acc
    ELSE LET x   == t[i]
             sp  == IF i = 1 \/ x = "\n" \/ t[i - 1] = "\n" THEN "" ELSE " "
             o   == off + Len(sp)
             col == lc[2] + Len(sp)
             a2  == [src    |-> acc.src \o sp \o x,
                     starts |-> acc.starts \o <<<<lc[1], col>>>> \o SubStarts(x, lc[1], col),
                     offs   |-> Append(acc.offs, o),
                     lines  |-> IF x = "\n" THEN Append(acc.lines, o + 1) ELSE acc.lines]
         IN  Layout(t, i + 1, a2, o + Len(x), IF x = "\n" THEN <<lc[1] + 1, 1>> ELSE <<lc[1], col + Len(x)>>)

CaseOf(t, kind) ==
    LET l == Layout(t, 1, [src |-> "", starts |-> <<>>, offs |-> <<>>, lines |-> <<0>>], 0, <<1, 1>>)
        r == Rec(t)
        brk == Len(t) > 0 /\ IsBroken(t[Len(t)])
    IN  [toks |-> t, kind |-> kind, cls |-> IF brk THEN "broken" ELSE r.cls, n |-> r.n,
         src |-> l.src, starts |-> l.starts, offs |-> l.offs, lines |-> l.lines, total |-> Len(l.src)]

(* single-token mutations of an accepted string *)
Mutants(t) ==
    LET n == Len(t)
        del  == {RemoveAt(t, i) : i \in 1..n}
        dup  == {InsertAt(t, i, t[i]) : i \in 1..n}
        swp  == {[t EXCEPT ![i] = t[i + 1], ![i + 1] = t[i]] : i \in 1..(n - 1)}
        ins  == {InsertAt(t, i, Alpha[a]) : i \in 1..(n + 1), a \in 1..Len(Alpha)}
        sub  == {[t EXCEPT ![i] = Alpha[a]] : i \in 1..n, a \in 1..Len(Alpha)}
    IN  (del \cup dup \cup swp \cup ins \cup sub) \ {t}

Emit == /\ PrintT(<<"CASE", ToJson(CaseOf(toks, "base"))>>)
        /\ (Mutations /\ Rec(toks).cls = "accept" /\ Rec(toks).n = Len(toks) /\ Len(toks) >= 3
              /\ ~IsBroken(toks[Len(toks)])) =>
              \A m \in Mutants(toks) : PrintT(<<"CASE", ToJson(CaseOf(m, "mutant"))>>)
=============================================================================
