---------------------------- MODULE LayoutCheck -----------------------------
(* C09: every single layout transformation of a program parses to the same *)
(* program (Norm-equal to the untransformed parse) and returns exactly the *)
(* inserted comments, each once, in order, with its text.                  *)
EXTENDS ShellSkel, Json, IOUtils
Recs == ndJsonDeserialize(IOEnv.VERIF_OBS)
N == Len(Recs)
VARIABLE k
Init == k = 1
Next == k < N /\ k' = k + 1

Texts(cs) == [i \in 1..Len(cs) |-> cs[i].text]

VariantOK(base, v) == /\ v.obs.err.class = "none"
                      /\ v.obs.panic = ""
                      /\ Norm(v.obs.sk) = Norm(base.sk)
                      /\ Texts(v.obs.comments) = v.comments

Chk == LET r == Recs[k] IN
       /\ (r.base.err.class = "none" /\ r.base.comments = <<>>) \/ PrintT(<<"MISMATCH", k, 0>>)
       /\ \A i \in 1..Len(r.variants) : VariantOK(r.base, r.variants[i]) \/ PrintT(<<"MISMATCH", k, i>>)
=============================================================================
