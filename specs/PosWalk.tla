------------------------------ MODULE PosWalk -------------------------------
(***************************************************************************)
(* The position contract of the AST (C04).                                  *)
(*                                                                          *)
(* An observation is the pre-order walk of the AST returned for an accepted *)
(* source: node claims [kind, pos, end, parent, group, ord, hd] and field   *)
(* claims [field, pos, text, want] where text is the source text found at   *)
(* the recorded line:column (counted in CHARACTERS), want the node's own    *)
(* spelling for operators / names / literals.                               *)
(***************************************************************************)
EXTENDS Integers, Sequences, SequencesExt, FiniteSets, TLC

C(s) == s     \* spellings are given as sequences of one-character strings

(* what the text at a recorded position must start with *)
Spells(f) ==
  CASE f = "Pipeline.Bang"      -> {<<"!">>}
    [] f = "Subshell.Lparen"    -> {<<"(">>}
    [] f = "Subshell.Rparen"    -> {<<")">>}
    [] f = "Group.Lbrace"       -> {<<"{">>}
    [] f = "Group.Rbrace"       -> {<<"}">>}
    [] f = "ArithEval.Left"     -> {<<"(", "(">>}
    [] f = "ArithEval.Right"    -> {<<")", ")">>}
    [] f = "ForClause.For"      -> {<<"f", "o", "r">>}
    [] f = "ForClause.In"       -> {<<"i", "n">>}
    [] f = "ForClause.Semicolon" -> {<<";">>}
    [] f \in {"ForClause.Do", "WhileClause.Do", "UntilClause.Do"} -> {<<"d", "o">>}
    [] f \in {"ForClause.Done", "WhileClause.Done", "UntilClause.Done"} -> {<<"d", "o", "n", "e">>}
    [] f = "CaseClause.Case"    -> {<<"c", "a", "s", "e">>}
    [] f = "CaseClause.In"      -> {<<"i", "n">>}
    [] f = "CaseClause.Esac"    -> {<<"e", "s", "a", "c">>}
    [] f = "CaseItem.Lparen"    -> {<<"(">>}
    [] f = "CaseItem.Rparen"    -> {<<")">>}
    [] f = "CaseItem.Break"     -> {<<";", ";">>}
    [] f = "IfClause.If"        -> {<<"i", "f">>}
    [] f \in {"IfClause.Then", "ElifClause.Then"} -> {<<"t", "h", "e", "n">>}
    [] f = "IfClause.Fi"        -> {<<"f", "i">>}
    [] f = "ElifClause.Elif"    -> {<<"e", "l", "i", "f">>}
    [] f = "ElseClause.Else"    -> {<<"e", "l", "s", "e">>}
    [] f = "WhileClause.While"  -> {<<"w", "h", "i", "l", "e">>}
    [] f = "UntilClause.Until"  -> {<<"u", "n", "t", "i", "l">>}
    [] f = "FuncDef.Lparen"     -> {<<"(">>}
    [] f = "FuncDef.Rparen"     -> {<<")">>}
    [] f = "ParamExp.Dollar"    -> {<<"$">>}
    [] f = "ParamExp.Dollar{"   -> {<<"$", "{">>}
    [] f = "CmdSubst.Left$"     -> {<<"(">>}
    [] f = "CmdSubst.Right$"    -> {<<")">>}
    [] f = "CmdSubst.Left`"     -> {<<"`">>}
    [] f = "CmdSubst.Right`"    -> {<<"`">>}
    [] f = "ArithExp.Left"      -> {<<"$", "(", "(">>}
    [] f = "ArithExp.Right"     -> {<<")", ")">>}
    [] f = "Comment.Hash"       -> {<<"#">>}
    [] f = "Lit.Empty"          -> {<<>>}     \* the literal of '' : nothing to spell
    [] OTHER                    -> {}      \* fields that carry their own spelling (want)

Prefix(p, s) == Len(p) <= Len(s) /\ SubSeq(s, 1, Len(p)) = p

Before(a, b) == a[1] < b[1] \/ (a[1] = b[1] /\ a[2] < b[2])
LE(a, b) == a = b \/ Before(a, b)

(* a position inside the source: line 1..nlines, column 1..len+1 *)
InSource(lens, p) == /\ p[1] >= 1 /\ p[1] <= Len(lens)
                     /\ p[2] >= 1 /\ p[2] <= lens[p[1]] + 1

FieldOK(lens, c) ==
    /\ InSource(lens, c.pos)
    /\ IF c.want # <<>> THEN Prefix(c.want, c.text)
       ELSE \E s \in Spells(c.field) : Prefix(s, c.text)

(* the clauses of the node contract, named so that a failure can be reported *)
NodeWhy(lens, nodes, i) ==
    LET n == nodes[i] IN
    IF ~InSource(lens, n.pos) THEN "pos-outside-source"
    ELSE IF ~InSource(lens, n.end) THEN "end-outside-source"      \* in particular a zero End
    ELSE IF ~LE(n.pos, n.end) THEN "pos-after-end"
    ELSE IF n.parent # 0 /\ ~LE(nodes[n.parent].pos, n.pos) THEN "starts-before-parent"
    ELSE IF n.parent # 0 /\ ~LE(n.end, nodes[n.parent].end)
         THEN (IF n.hd THEN "heredoc-extent" ELSE "ends-after-parent")
    ELSE IF \E j \in 1..(i - 1) : nodes[j].group = n.group /\ nodes[j].ord < n.ord /\ ~Before(nodes[j].pos, n.pos)
         THEN "siblings-out-of-order"
    ELSE IF \E j \in 1..(i - 1) : nodes[j].group = n.group /\ nodes[j].ord < n.ord /\ ~nodes[j].hd /\ ~LE(nodes[j].end, n.pos)
         THEN "siblings-overlap"
    ELSE "ok"

NodeOK(lens, nodes, i) == NodeWhy(lens, nodes, i) = "ok"

Holds(rec) ==
    /\ rec.panic = ""
    /\ \A i \in 1..Len(rec.fields) : FieldOK(rec.linelens, rec.fields[i])
    /\ \A i \in 1..Len(rec.nodes) : NodeOK(rec.linelens, rec.nodes, i)

(* for reporting: the failing claims [kind, index, reason] *)
Bad(rec) ==
    LET bf == {i \in 1..Len(rec.fields) : ~FieldOK(rec.linelens, rec.fields[i])}
        bn == {i \in 1..Len(rec.nodes) : ~NodeOK(rec.linelens, rec.nodes, i)}
    IN  SetToSeq({<<"field", i, "spelling">> : i \in bf} \cup {<<"node", i, NodeWhy(rec.linelens, rec.nodes, i)>> : i \in bn})
=============================================================================
