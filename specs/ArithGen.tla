------------------------------ MODULE ArithGen -------------------------------
(* Expression trees for C11: all trees of depth 1 over every operator and   *)
(* the operand set, depth-2 trees built from side-effecting / faulting /    *)
(* overflowing subtrees in every operand position (including the operands   *)
(* that C skips), and all pairs of binary operators in both association     *)
(* shapes (precedence and associativity); each tree with four stores.       *)
EXTENDS Arith, Json, SequencesExt

N0 == Num("0", Zero)  N1 == Num("1", One)  N2 == Num("2", FromNat(2))  N3 == Num("3", FromNat(3))  N7 == Num("7", FromNat(7))
NOct == Num("017", FromNat(15))  NHex == Num("0x1f", FromNat(31))  NBad == BadNum("08")
NMax == Num("9223372036854775807", MaxI)
M1 == Un("-", N1)
X == Var("x")  Y == Var("y")
Leaves == {N0, N1, N2, N3, N7, NOct, NHex, NBad, NMax, X, Y, M1}
Small == {N0, N1, N3, NMax, X}
BinOps == {"*", "/", "%", "+", "-", "<<", ">>", "<", ">", "<=", ">=", "==", "!=", "&", "^", "|"}
UnOps == {"+", "-", "~", "!"}
AsgOps == {"=", "*=", "/=", "%=", "+=", "-=", "<<=", ">>=", "&=", "^=", "|="}
IncOps == {"++x", "x++", "--x", "x--"}

T1 ==    {Un(o, l) : o \in UnOps, l \in Leaves}
    \cup {Bin(o, a, b) : o \in BinOps, a \in Leaves, b \in Leaves}
    \cup {LAnd(a, b) : a \in Leaves, b \in Leaves} \cup {LOr(a, b) : a \in Leaves, b \in Leaves}
    \cup {Tern(c, a, b) : c \in {N0, N1, X, Y}, a \in Small, b \in Small}
    \cup {Asg(o, n, l) : o \in AsgOps, n \in {"x", "y"}, l \in Leaves}
    \cup {Inc(o, n) : o \in IncOps, n \in {"x", "y"}}
    \cup {NoLv("=", N1, N2), NoLv("+=", Bin("+", X, N1), N2), NoLv("=", Un("-", X), Asg("=", "y", N3))}

(* subtrees with an effect, a fault or an overflow *)
SubT == {Asg("=", "x", N7), Inc("x++", "x"), Inc("--x", "y"), Bin("/", N1, N0), Bin("%", N7, N0), NBad, Bin("+", NMax, N1), M1,
        Bin("<<", N1, M1), Y, Asg("+=", "y", N2), Bin("*", NMax, N2), Tern(N0, N1, N2), Bin("-", N0, NMax), LAnd(N0, Inc("++x", "y"))}

T2 ==    {Bin(o, s, l) : o \in BinOps, s \in SubT, l \in {N1, N3, NMax}} \cup {Bin(o, l, s) : o \in BinOps, s \in SubT, l \in {N1, N3, NMax}}
    \cup {LAnd(c, s) : c \in {N0, N1, X, Y}, s \in SubT} \cup {LOr(c, s) : c \in {N0, N1, X, Y}, s \in SubT}
    \cup {LAnd(s, t) : s \in SubT, t \in SubT} \cup {LOr(s, t) : s \in SubT, t \in SubT}
    \cup {Tern(c, s, t) : c \in {N0, N1, Y}, s \in SubT, t \in SubT}
    \cup {Tern(s, N1, N2) : s \in SubT}
    \cup {Asg(o, "x", s) : o \in {"=", "+=", "/=", "<<="}, s \in SubT}
    \cup {Un(o, s) : o \in UnOps, s \in SubT}

(* precedence and associativity: every pair of binary operators, both shapes; && || ?: = mixed in *)
T3 ==    {Bin(o, Bin(p, N7, N3), N2) : o \in BinOps, p \in BinOps} \cup {Bin(o, N7, Bin(p, N3, N2)) : o \in BinOps, p \in BinOps}
    \cup {LOr(LAnd(N0, N1), N1), LAnd(N0, LOr(N1, N1)), LOr(N1, LAnd(N1, N0)), LAnd(LOr(N1, N1), N0)}
    \cup {Tern(N1, N2, Tern(N0, N3, N7)), Tern(Tern(N1, N0, N1), N2, N3), Tern(N0, N1, Tern(N0, N2, N3))}
    \cup {Asg("=", "x", Asg("=", "y", N3)), Asg("=", "x", Tern(N1, N2, N3)), Tern(N1, Asg("=", "x", N2), N3)}
    \cup {Bin(o, LAnd(N1, N0), N1) : o \in {"|", "==", "+"}} \cup {LAnd(Bin(o, N1, N0), N1) : o \in {"|", "==", "<"}}
    \cup {Un(o, Un(p, N7)) : o \in UnOps, p \in UnOps} \cup {Bin(o, Un(p, N3), N2) : o \in {"-", "+", "*"}, p \in UnOps}

(* a variable modified and then read (or modified again) across a sequence point; an assignment that reads its own target *)
Eff == {Inc("x++", "x"), Inc("--x", "y"), Inc("++x", "x"), Asg("=", "x", N7), Asg("+=", "y", N2)}
T4 ==    {LAnd(s, v) : s \in Eff, v \in {X, Y, Inc("x--", "x")}} \cup {LOr(s, v) : s \in Eff, v \in {X, Y, Inc("y++", "y")}}
    \cup {Tern(s, v, w) : s \in Eff, v \in {X, Y}, w \in {Y, X, N1}}
    \cup {Asg(o, "x", Bin(p, X, N3)) : o \in AsgOps, p \in {"+", "*", "-"}} \cup {Asg(o, "y", Un("-", Y)) : o \in {"=", "+=", "<<="}}
    \cup {Bin("+", LAnd(Inc("x++", "x"), X), N1), Tern(X, Inc("x++", "x"), Inc("--x", "x"))}

Trees == SetToSeq({e \in T1 \cup T2 \cup T3 \cup T4 : Defined(e)})

StoreNames == <<"dec", "octhex", "emptybad", "minneg", "gobase">>
StoreOf(n) ==
    CASE n = "dec"      -> [x |-> [kind |-> "num", v |-> FromNat(3)], y |-> [kind |-> "unset", v |-> Zero]]
      [] n = "octhex"   -> [x |-> [kind |-> "num", v |-> FromNat(8)], y |-> [kind |-> "num", v |-> FromNat(31)]]    \* "010", "0x1F"
      [] n = "emptybad" -> [x |-> [kind |-> "empty", v |-> Zero], y |-> [kind |-> "bad", v |-> Zero]]                \* "", "zz"
      [] n = "gobase"   -> [x |-> [kind |-> "bad", v |-> Zero], y |-> [kind |-> "bad", v |-> Zero]]                  \* "0b11", "1_000": not C constants
      [] OTHER          -> [x |-> [kind |-> "num", v |-> MinI], y |-> [kind |-> "num", v |-> MinusOne]]

VARIABLE k
Init == k = 1
Next == \E c \in {2 * k, 2 * k + 1} : c <= Len(Trees) /\ k' = c

Proj(r) == [v |-> r.v, f |-> r.f, x |-> r.st["x"], y |-> r.st["y"]]

CaseOf(e, sn) ==
    LET st == StoreOf(sn)
        c  == Eval(e, st, FALSE)
        g  == Eval(e, st, TRUE)
        \* the order in which the operands of one operator are evaluated is unspecified: when a variable that holds
        \* garbage is read in an expression that also assigns, "before / after the first fault" is not determined
        unord == \E n \in {"x", "y"} : st[n].kind = "bad" /\ Count(Reads(e), n) > 0 /\ Writes(e) # <<>>
    IN  [min |-> Text(e, FALSE), full |-> Text(e, TRUE), tight |-> Tight(Text(e, FALSE)), store |-> sn, undef |-> c.u \/ g.u \/ unord, exp |-> Proj(c), eager |-> Proj(g)]

Emit == k > Len(Trees) \/ \A i \in 1..Len(StoreNames) : PrintT(<<"CASE", ToJson(CaseOf(Trees[k], StoreNames[i]))>>)
=============================================================================
