----------------------------- MODULE SplitCheck -----------------------------
EXTENDS Split, Json, IOUtils
Recs == ndJsonDeserialize(IOEnv.VERIF_OBS)
N == Len(Recs)
VARIABLE k
Init == k = 1
Next == k < N /\ k' = k + 1
\* the expectation is recomputed from the segment ids, not taken from the record
\* constructions: literal text, parameter expansions, digits out of $(( )), the whole word as the default of ${nosuch:-word},
\* the word behind ~/ (HOME holds IFS characters)
Chk == LET r == Recs[k] e == Expected(r.segs) IN
       (r.obs.lit = e /\ r.obs.var = e /\ r.obs.arith = e /\ r.obs.dflt = e /\ r.obs.tilde = ExpectedTilde(r.segs)) \/ PrintT(<<"MISMATCH", k>>)
=============================================================================
