----------------------------- MODULE ParamCheck ------------------------------
EXTENDS Param, Json, IOUtils
Recs == ndJsonDeserialize(IOEnv.VERIF_OBS)
N == Len(Recs)
VARIABLE k
Init == k = 1
Next == k < N /\ k' = k + 1
Chk == Holds(Recs[k]) \/ PrintT(<<"MISMATCH", k, ToJson(Expected(Recs[k].c))>>)
=============================================================================
