------------------------------ MODULE GlobCheck ------------------------------
(* C16: observations of pattern.Glob in scratch directories against the     *)
(* expectation of Glob.tla (carried in the record from the generator run).  *)
EXTENDS Integers, Sequences, FiniteSets, TLC, Json, IOUtils
Recs == ndJsonDeserialize(IOEnv.VERIF_OBS)
N == Len(Recs)
VARIABLE k
Init == k = 1
Next == k < N /\ k' = k + 1

ToSet(s) == {s[i] : i \in 1..Len(s)}

PatOK(p) == LET o == p.obs IN
            /\ o.panic = ""
            /\ o.err = ""                         \* nothing matching is an empty result, not an error
            \* exactly the existing matching paths ("." and ".." are optional members), spelled with the pattern's separators
            \* (absolute / repeated slashes kept); exp2: the other reading of a trailing backslash (equal to exp otherwise)
            /\ \/ ToSet(o.res) = ToSet(p.exp) /\ ToSet(o.strs) = ToSet(p.expstr)
               \/ ToSet(o.res) = ToSet(p.exp2) /\ ToSet(o.strs) = ToSet(p.expstr2)
            \* the same pattern as a word through ExecEnv.Expand: the matches in order, or the word itself when nothing matches
            \* (relative single-slash forms; skipped when "." / ".." are among the fields)
            /\ (p.abs \/ p.rep = 2 \/ o.xdots > 0) \/ (o.xerr = "" /\ o.xsorted /\ (ToSet(o.xw) = ToSet(p.expw) \/ ToSet(o.xw) = ToSet(p.expw2)))
            \* the pattern as the value of v: $v is expanded like the word, "$v" is the text itself
            /\ (p.abs \/ p.rep = 2 \/ o.xdots > 0 \/ ~o.nobs) \/ (ToSet(o.xv) = ToSet(p.expw) /\ o.xq = <<p.wtext>>)
            /\ o.escroot                            \* an absolute pattern whose first slash is escaped gives the same paths
            /\ o.sorted /\ o.nodup /\ o.lstat /\ o.slashok

Chk == \A i \in 1..Len(Recs[k].pats) : PatOK(Recs[k].pats[i]) \/ PrintT(<<"MISMATCH", k, i>>)
=============================================================================
