------------------------------- MODULE Stream -------------------------------
(***************************************************************************)
(* Successive ParseCommands calls on one rune scanner (C07).                *)
(*                                                                          *)
(* The stream is a sequence of segments [kind, len, alone]:                 *)
(*   cmd      the text of one complete command through its terminating      *)
(*            newline (here-document bodies and delimiter lines included);  *)
(*            `alone` is the skeleton obtained by parsing that text alone   *)
(*   blank    an empty line                                                 *)
(*   comment  a line that holds only a comment                              *)
(* State: i = next segment, pos = runes consumed.  One action, Call:        *)
(*   - head is a command: consumes exactly that segment, returns its tree;  *)
(*   - head is a blank line: consumes it, returns nothing;                  *)
(*   - head is a comment line: leading comment lines are skipped together   *)
(*     with the blank and comment lines after them and the call goes on     *)
(*     with the next command (dialect fact pinned by the repository's       *)
(*     TestParseCommand: "# comment\n\ngo version").                        *)
(* The run of a stream is unique, so validation compares the recorded       *)
(* calls with Run(segs) step by step.                                       *)
(***************************************************************************)
EXTENDS Integers, Sequences, TLC

RECURSIVE SkipLayout(_, _)
SkipLayout(segs, j) == IF j <= Len(segs) /\ segs[j].kind # "cmd" THEN SkipLayout(segs, j + 1) ELSE j

RECURSIVE SumLen(_, _, _)
SumLen(segs, a, b) == IF a > b THEN 0 ELSE segs[a].len + SumLen(segs, a + 1, b)

(* the call made in state (i, pos): [next i, next pos, result skeleton] *)
Call(segs, i, pos) ==
    CASE segs[i].kind = "cmd"   -> [i |-> i + 1, pos |-> pos + segs[i].len, sk |-> segs[i].alone]
      [] segs[i].kind = "blank" -> [i |-> i + 1, pos |-> pos + segs[i].len, sk |-> <<>>]
      [] OTHER ->
           LET j == SkipLayout(segs, i) IN
           IF j > Len(segs) THEN [i |-> j, pos |-> pos + SumLen(segs, i, Len(segs)), sk |-> <<>>]
           ELSE [i |-> j + 1, pos |-> pos + SumLen(segs, i, j), sk |-> segs[j].alone]

RECURSIVE Run(_, _, _)
Run(segs, i, pos) ==
    IF i > Len(segs) THEN <<>>
    ELSE LET c == Call(segs, i, pos) IN <<[pos |-> c.pos, sk |-> c.sk]>> \o Run(segs, c.i, c.pos)

(* property predicate for one recorded stream *)
Holds(rec) ==
    LET exp == Run(rec.segs, 1, 0) IN
    /\ rec.panic = ""
    /\ \A s \in 1..Len(rec.segs) : rec.segs[s].err.class = "none"
    /\ Len(rec.calls) = Len(exp)
    /\ \A c \in 1..Len(exp) :
         /\ rec.calls[c].err.class = "none"
         /\ rec.calls[c].pos = exp[c].pos          \* consumed exactly the command's text
         /\ rec.calls[c].sk = exp[c].sk            \* same result as parsing the text alone
    /\ (Len(exp) > 0 => exp[Len(exp)].pos = rec.total)
=============================================================================
