----------------------------- MODULE SchedCheck ------------------------------
(* C06 on the real code: the runs of one input under different schedules    *)
(* (forced by the gated scheduler, or free running under the race detector) *)
(* all return the same result, and at the return of every run nothing       *)
(* started by the call is still running or touching the reader.             *)
EXTENDS Integers, Sequences, Json, IOUtils, TLC
Recs == ndJsonDeserialize(IOEnv.VERIF_OBS)
N == Len(Recs)
VARIABLE k
Init == k = 1
Next == k < N /\ k' = k + 1

Result(r) == <<r.err, r.sk, r.comments, r.consumed, r.value, r.store>>

QuiescentRun(r) == /\ ~r.hang              \* returned at all
                   /\ r.panic = ""
                   /\ r.running = <<>>     \* every lexer had reached its exit point when the call returned
                   /\ r.late = 0           \* no hook event after the return
                   /\ r.lateread = 0       \* the reader was not touched after the return

Holds(rec) == /\ \A i \in 1..Len(rec.runs) : QuiescentRun(rec.runs[i])
              /\ \A i \in 1..Len(rec.runs) : Result(rec.runs[i]) = Result(rec.runs[1])

Bad(rec) == {i \in 1..Len(rec.runs) : ~QuiescentRun(rec.runs[i]) \/ Result(rec.runs[i]) # Result(rec.runs[1])}

Chk == Holds(Recs[k]) \/ PrintT(<<"MISMATCH", k, CHOOSE i \in Bad(Recs[k]) : \A j \in Bad(Recs[k]) : i <= j>>)
=============================================================================
