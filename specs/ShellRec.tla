------------------------------ MODULE ShellRec ------------------------------
(***************************************************************************)
(* Independent reference recogniser of the dialect (C03; cross-check of     *)
(* ShellGrammar).  A recursive-descent recogniser over TOKEN strings,       *)
(* written from XCU 2.10 with reserved words recognised by position rules   *)
(* (first word of a command, after a reserved word other than case/for/in,  *)
(* third word of for/case, closers after a complete list) -- deliberately   *)
(* not a transcription of lexer.go.                                         *)
(*                                                                          *)
(*   Rec(toks) = Accept(n)   the first n tokens form one complete command   *)
(*                           line (a top-level newline ends it)             *)
(*               Incomplete  viable prefix, more input needed               *)
(*               Reject(i)   token i is the first offending token           *)
(***************************************************************************)
EXTENDS Integers, Sequences, FiniteSets, TLC

RES    == {"!", "{", "}", "for", "case", "esac", "in", "if", "elif", "then", "else", "fi", "while", "until", "do", "done"}
OPS    == {";", "&", "&&", "||", "|", ";;", "(", ")", "\n"}
REDIR  == {"<", ">", ">>", "2>"}
ARITH  == {"((1))"}
ASSIGN == {"x=1"}
SPBUILTIN == {"break", "continue", "eval", "exec", "exit", "export", "readonly", "return", "set", "shift", "times", "trap", "unset"}
NAMES  == {"a", "f"} \cup SPBUILTIN \cup (RES \ {"!", "{", "}"})     \* spellings that satisfy XBD Name
EOFT   == "<eof>"

Ok(i)  == [st |-> "ok",  i |-> i]
Inc    == [st |-> "inc", i |-> 0]
Rej(i) == [st |-> "rej", i |-> i]

Peek(t, i) == IF i <= Len(t) THEN t[i] ELSE EOFT
Fail(t, i) == IF i > Len(t) THEN Inc ELSE Rej(i)
Expect(t, i, s) == IF Peek(t, i) = s THEN Ok(i + 1) ELSE Fail(t, i)
Bind(r, F(_)) == IF r.st = "ok" THEN F(r.i) ELSE r

IsWord(x) == x # EOFT /\ x \notin OPS /\ x \notin REDIR /\ x \notin ARITH
IsPlainWord(x) == IsWord(x) /\ x \notin RES

RECURSIVE Linebreak(_, _)
Linebreak(t, i) == IF Peek(t, i) = "\n" THEN Linebreak(t, i + 1) ELSE i

(* one redirection if present: [io_number] op word *)
IsRedirAt(t, i) == Peek(t, i) \in REDIR
Redir(t, i) == IF IsWord(Peek(t, i + 1)) THEN Ok(i + 2) ELSE Fail(t, i + 1)

RECURSIVE Redirs(_, _)
Redirs(t, i) == IF IsRedirAt(t, i) THEN Bind(Redir(t, i), LAMBDA j : Redirs(t, j)) ELSE Ok(i)

RECURSIVE AndOr(_, _), AndOrRest(_, _), Pipeline(_, _), PipeRest(_, _), Command(_, _), CList(_, _, _),
          CListBody(_, _, _), CListRest(_, _, _), IfRest(_, _), CaseItems(_, _), CasePats(_, _), Suffix(_, _),
          Prefix(_, _, _), ForWords(_, _)

AndOr(t, i) == Bind(Pipeline(t, i), LAMBDA j : AndOrRest(t, j))
AndOrRest(t, i) ==
    IF Peek(t, i) \in {"&&", "||"}
    THEN Bind(Pipeline(t, Linebreak(t, i + 1)), LAMBDA j : AndOrRest(t, j))
    ELSE Ok(i)

Pipeline(t, i) ==
    LET s == IF Peek(t, i) = "!" THEN i + 1 ELSE i
    IN  Bind(Command(t, s), LAMBDA j : PipeRest(t, j))
PipeRest(t, i) ==
    IF Peek(t, i) = "|"
    THEN Bind(Command(t, Linebreak(t, i + 1)), LAMBDA j : PipeRest(t, j))
    ELSE Ok(i)

(* compound list up to (not including) one of the closers *)
CList(t, i, closers) == CListBody(t, Linebreak(t, i), closers)
CListBody(t, i, closers) == Bind(AndOr(t, i), LAMBDA j : CListRest(t, j, closers))
Closers == (RES \ {"!", "{", "for", "case", "if", "while", "until"}) \cup {")", ";;"}
CListRest(t, i, closers) ==
    LET x == Peek(t, i) IN
    IF x \in {";", "&", "\n"}
    THEN LET j == Linebreak(t, i + 1) y == Peek(t, j) IN
         IF y \in closers \/ y = EOFT \/ y \in Closers THEN Ok(j)
         ELSE CListBody(t, j, closers)
    ELSE Ok(i)

Closed(t, r, closer) == Bind(r, LAMBDA j : Bind(Expect(t, j, closer), LAMBDA m : Redirs(t, m)))

IfRest(t, i) ==   \* after the then-list: elif / else / fi
    LET x == Peek(t, i) IN
    IF x = "elif"
    THEN Bind(CList(t, i + 1, {"then"}), LAMBDA j : Bind(Expect(t, j, "then"), LAMBDA m :
              Bind(CList(t, m, {"elif", "else", "fi"}), LAMBDA n : IfRest(t, n))))
    ELSE IF x = "else"
    THEN Closed(t, CList(t, i + 1, {"fi"}), "fi")
    ELSE Bind(Expect(t, i, "fi"), LAMBDA m : Redirs(t, m))

CasePats(t, i) ==   \* i at the first pattern word
    IF ~IsWord(Peek(t, i)) THEN Fail(t, i)
    ELSE IF Peek(t, i + 1) = "|" THEN CasePats(t, i + 2) ELSE Ok(i + 1)

CaseItems(t, i) ==
    LET x == Peek(t, i) IN
    IF x = "esac" THEN Ok(i)
    ELSE IF x = EOFT THEN Inc
    ELSE LET s == IF x = "(" THEN i + 1 ELSE i IN
         Bind(CasePats(t, s), LAMBDA j : Bind(Expect(t, j, ")"), LAMBDA m :
           LET b == Linebreak(t, m) IN
           LET body == IF Peek(t, b) \in {";;", "esac"} THEN Ok(b) ELSE CListBody(t, b, {";;", "esac"}) IN
           Bind(body, LAMBDA n : IF Peek(t, n) = ";;" THEN CaseItems(t, Linebreak(t, n + 1)) ELSE Ok(n))))

ForWords(t, i) == IF IsWord(Peek(t, i)) THEN ForWords(t, i + 1) ELSE i

(* cmd_suffix of a simple command *)
Suffix(t, i) ==
    IF IsWord(Peek(t, i)) THEN Suffix(t, i + 1)
    ELSE IF IsRedirAt(t, i) THEN Bind(Redir(t, i), LAMBDA j : Suffix(t, j))
    ELSE Ok(i)

(* cmd_prefix: assignments and redirections; n = number consumed so far *)
Prefix(t, i, n) ==
    IF Peek(t, i) \in ASSIGN THEN Prefix(t, i + 1, n + 1)
    ELSE IF IsRedirAt(t, i) THEN Bind(Redir(t, i), LAMBDA j : Prefix(t, j, n + 1))
    ELSE [st |-> "ok", i |-> i, n |-> n]

Command(t, i) ==
    LET x == Peek(t, i) IN
    CASE x = EOFT -> Inc
      [] x = "("  -> Closed(t, CList(t, i + 1, {")"}), ")")
      [] x \in ARITH -> Redirs(t, i + 1)
      [] x = "{"  -> Closed(t, CList(t, i + 1, {"}"}), "}")
      [] x = "if" -> Bind(CList(t, i + 1, {"then"}), LAMBDA j : Bind(Expect(t, j, "then"), LAMBDA m :
                       Bind(CList(t, m, {"elif", "else", "fi"}), LAMBDA n : IfRest(t, n))))
      [] x \in {"while", "until"} ->
                     Bind(CList(t, i + 1, {"do"}), LAMBDA j : Bind(Expect(t, j, "do"), LAMBDA m :
                       Closed(t, CList(t, m, {"done"}), "done")))
      [] x = "for" ->
           LET n == Peek(t, i + 1) IN
           IF n = EOFT THEN Inc
           ELSE IF n \notin NAMES THEN Rej(i + 1)
           ELSE LET a == i + 2 IN
                LET head ==
                      IF Peek(t, a) = ";" THEN Ok(Linebreak(t, a + 1))
                      ELSE LET b == Linebreak(t, a) IN
                           IF Peek(t, b) = "in"
                           THEN LET c == ForWords(t, b + 1) IN
                                IF Peek(t, c) = ";" THEN Ok(Linebreak(t, c + 1))
                                ELSE IF Peek(t, c) = "\n" THEN Ok(Linebreak(t, c))
                                ELSE Fail(t, c)
                           ELSE Ok(b)
                IN Bind(head, LAMBDA j : Bind(Expect(t, j, "do"), LAMBDA m : Closed(t, CList(t, m, {"done"}), "done")))
      [] x = "case" ->
           IF ~IsWord(Peek(t, i + 1)) THEN Fail(t, i + 1)
           ELSE Bind(Expect(t, Linebreak(t, i + 2), "in"), LAMBDA j :
                  Bind(CaseItems(t, Linebreak(t, j)), LAMBDA m : Bind(Expect(t, m, "esac"), LAMBDA n : Redirs(t, n))))
      [] x \in RES -> Rej(i)      \* a reserved word that cannot start a command
      [] OTHER ->
           LET p == Prefix(t, i, 0) IN
           IF p.st # "ok" THEN p
           ELSE LET w == Peek(t, p.i) IN
                IF IsWord(w)
                THEN \* after a prefix reserved words are ordinary words
                     IF p.n = 0 /\ w \in RES THEN Rej(p.i)
                     ELSE IF p.n = 0 /\ w \in NAMES /\ Peek(t, p.i + 1) = "("
                     THEN \* function definition; the name of a special built-in utility cannot be a function name
                          IF w \in SPBUILTIN THEN Rej(p.i) ELSE
                          Bind(Expect(t, p.i + 2, ")"), LAMBDA j :
                            LET b == Linebreak(t, j) y == Peek(t, b) IN
                            IF y = EOFT THEN Inc
                            ELSE IF y \in {"(", "{", "if", "while", "until", "for", "case"} \/ y \in ARITH THEN Command(t, b)
                            ELSE Rej(b))
                     ELSE Suffix(t, p.i + 1)
                ELSE IF p.n = 0 THEN Fail(t, p.i) ELSE Ok(p.i)

(* one complete command line at top level *)
RECURSIVE TopRest(_, _)
TopRest(t, i) ==
    LET x == Peek(t, i) IN
    IF x \in {";", "&"}
    THEN (IF Peek(t, i + 1) = EOFT THEN Ok(i + 1)
          ELSE IF Peek(t, i + 1) = "\n" THEN Ok(i + 2)
          ELSE Bind(AndOr(t, i + 1), LAMBDA j : TopRest(t, j)))
    ELSE IF x = EOFT THEN Ok(i)
    ELSE IF x = "\n" THEN Ok(i + 1)
    ELSE Rej(i)

Complete(t) ==
    IF Len(t) = 0 THEN Ok(1)
    ELSE IF t[1] = "\n" THEN Ok(2)
    ELSE Bind(AndOr(t, 1), LAMBDA j : TopRest(t, j))

(* classification: [cls, n]  n = tokens consumed (accept) / offending index (reject) *)
Rec(t) == LET r == Complete(t) IN
          CASE r.st = "ok"  -> [cls |-> "accept", n |-> r.i - 1]
            [] r.st = "inc" -> [cls |-> "incomplete", n |-> Len(t)]
            [] OTHER        -> [cls |-> "reject", n |-> r.i]
=============================================================================
