------------------------------ MODULE ArithSim -------------------------------
(* Random deeper expression trees for C11 (TLC -simulate): a stack machine  *)
(* that pushes operands and combines the top elements with any operator.    *)
(* Every state whose stack holds exactly one tree of depth >= 3 that C      *)
(* defines is a case (with the four stores and the three renderings of      *)
(* ArithGen).                                                               *)
EXTENDS ArithGen

CONSTANT MaxDepth
VARIABLES stack, done

RECURSIVE Depth(_)
Max2(a, b) == IF a > b THEN a ELSE b
Depth(e) == CASE e.k \in {"num", "var", "inc"} -> 1
              [] e.k \in {"un", "asg"} -> 1 + Depth(e.a)
              [] e.k = "tern" -> 1 + Max2(Depth(e.c), Max2(Depth(e.a), Depth(e.b)))
              [] OTHER -> 1 + Max2(Depth(e.a), Depth(e.b))

Top(n) == stack[Len(stack) - n]
Rest(n) == SubSeq(stack, 1, Len(stack) - n)
Fits(e) == Depth(e) <= MaxDepth

SInit == stack = <<>> /\ done = FALSE /\ k = 1
Push  == Len(stack) < 3 /\ \E l \in Leaves \cup {Inc(o, n) : o \in IncOps, n \in {"x", "y"}} : stack' = Append(stack, l)
Unary == Len(stack) >= 1 /\ \E o \in UnOps : LET e == Un(o, Top(0)) IN Fits(e) /\ stack' = Append(Rest(1), e)
Binary == Len(stack) >= 2 /\ \E o \in BinOps \cup {"&&", "||"} :
             LET e == IF o = "&&" THEN LAnd(Top(1), Top(0)) ELSE IF o = "||" THEN LOr(Top(1), Top(0)) ELSE Bin(o, Top(1), Top(0))
             IN  Fits(e) /\ stack' = Append(Rest(2), e)
Ternary == Len(stack) >= 3 /\ LET e == Tern(Top(2), Top(1), Top(0)) IN Fits(e) /\ stack' = Append(Rest(3), e)
AssignTop == Len(stack) >= 1 /\ \E o \in AsgOps, n \in {"x", "y"} : LET e == Asg(o, n, Top(0)) IN Fits(e) /\ stack' = Append(Rest(1), e)
\* the tree is complete: only this step is a case (TLC's simulator evaluates the invariant on every successor it generates)
Finish == Len(stack) = 1 /\ Depth(stack[1]) >= 3 /\ Defined(stack[1]) /\ done' = TRUE /\ stack' = stack
SNext == ~done /\ (((Push \/ Unary \/ Binary \/ Ternary \/ AssignTop) /\ done' = FALSE) \/ Finish) /\ UNCHANGED k

SEmit == done =>
            \A i \in 1..Len(StoreNames) : PrintT(<<"CASE", ToJson(CaseOf(stack[1], StoreNames[i]))>>)
=============================================================================
