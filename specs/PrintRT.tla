------------------------------ MODULE PrintRT -------------------------------
(***************************************************************************)
(* Printer configuration space and the relations between a program, its     *)
(* printed text and the re-parsed text (C05, C18, C19).                     *)
(*                                                                          *)
(* Configs is the complete product of the options of printer.Config: the    *)
(* 256 combinations named by the properties.  The driver prints the parsed  *)
(* program under every configuration and records                            *)
(*   rt        configurations whose re-parsed skeleton is not byte-identical*)
(*             to the skeleton of the first parse (recorded in full)        *)
(*   nsame     number of configurations with identical skeletons            *)
(*   idem_bad  print(parse(print(t))) # print(t)                            *)
(*   det_bad   two prints of one tree differ                                *)
(*   pure_bad  deep dump of the tree before # after Fprint                  *)
(*   perr      Fprint failed / panicked with a working writer               *)
(*   wf_bad    a writer failing after k bytes was not reported              *)
(* Byte identity is decided by the driver; everything else here.            *)
(***************************************************************************)
EXTENDS ShellSkel, FiniteSets, Json

Bool == <<FALSE, TRUE>>

ConfigSet == [indent : {"tab", "space"}, width : {2, 4}, redir : {"before", "after"}, spaced : BOOLEAN,
              assign : {"before", "after"}, do : BOOLEAN, then : BOOLEAN, case : BOOLEAN]

(* a fixed enumeration order: id = binary code of the eight options *)
Bit(n, i) == (n \div (2 ^ i)) % 2 = 1
CfgOf(id) == [id     |-> id,
              indent |-> IF Bit(id, 0) THEN "space" ELSE "tab",
              width  |-> IF Bit(id, 1) THEN 4 ELSE 2,
              redir  |-> IF Bit(id, 2) THEN "before" ELSE "after",
              spaced |-> Bit(id, 3),
              assign |-> IF Bit(id, 4) THEN "after" ELSE "before",
              do     |-> Bit(id, 5),
              then   |-> Bit(id, 6),
              case   |-> Bit(id, 7)]
Configs == [i \in 1..256 |-> CfgOf(i - 1)]

(* the enumeration covers the whole product, each combination once *)
ConfigsComplete ==
    /\ Cardinality(ConfigSet) = 256
    /\ {[indent |-> c.indent, width |-> c.width, redir |-> c.redir, spaced |-> c.spaced, assign |-> c.assign,
         do |-> c.do, then |-> c.then, case |-> c.case] : c \in {Configs[i] : i \in 1..256}} = ConfigSet

(***************************************************************************)
(* C05: the printed text is accepted and denotes the same program.          *)
(***************************************************************************)
RoundTrip(sk1, d) == /\ d.err.class = "none"
                     /\ d.rem = 0
                     /\ Norm(d.sk2) = Norm(sk1)

C05Holds(rec) ==
    /\ rec.err.class = "none"
    /\ rec.ncfg = rec.want                  \* 256, or the sample of configurations asked for (quick tier, additional programs)
    /\ rec.nsame + Len(rec.rt) + Len(rec.perr) = rec.want
    /\ rec.perr = <<>>
    /\ \A i \in 1..Len(rec.rt) : RoundTrip(rec.sk, rec.rt[i])

(***************************************************************************)
(* C18: fix-point, determinism, purity, writer faults.                      *)
(***************************************************************************)
C18Holds(rec) ==
    /\ rec.err.class = "none"
    /\ rec.ncfg = rec.want
    /\ rec.idem_bad = <<>>
    /\ \A i \in 1..Len(rec.rt) : rec.rt[i].err.class = "none"    \* the fix-point exists: every output parses again
    /\ rec.det_bad = <<>>
    /\ rec.pure_bad = <<>>
    /\ rec.perr = <<>>
    /\ rec.wf_bad = <<>>
=============================================================================
