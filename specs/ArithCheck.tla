----------------------------- MODULE ArithCheck ------------------------------
(* C11: observations of ExecEnv.Eval against the reference evaluator.  The   *)
(* expectation (exp: C semantics; eager: the named deviation "operands that  *)
(* C skips are evaluated") was computed by Arith.tla in the generation run.  *)
EXTENDS Integers, Sequences, TLC, Json, IOUtils
Recs == ndJsonDeserialize(IOEnv.VERIF_OBS)
N == Len(Recs)
VARIABLE k
Init == k = 1
Next == k < N /\ k' = k + 1

VarEq(o, e) == o.kind = e.kind /\ (e.kind = "num" => o.v = e.v)

Agrees(o, e) ==
    /\ o.panic = ""
    /\ o.same                                    \* the same value / error / store on every run
    /\ e.f <=> o.f                               \* fault <=> ArithExprError
    /\ (o.err = "none" \/ o.err = "arith")
    /\ (~e.f => o.v = e.v)                        \* the value C computes, with 64-bit wrap-around
    /\ VarEq(o.x, e.x) /\ VarEq(o.y, e.y)        \* exactly the named variables updated, nothing after a fault

Verdict(r) == IF r.undef THEN "ok"
              ELSE IF Agrees(r.omin, r.exp) /\ Agrees(r.ofull, r.exp) /\ Agrees(r.otight, r.exp) /\ Agrees(r.oxten, r.exp) THEN "ok"
              ELSE IF /\ (Agrees(r.omin, r.exp) \/ Agrees(r.omin, r.eager)) /\ (Agrees(r.ofull, r.exp) \/ Agrees(r.ofull, r.eager))
                      /\ (Agrees(r.otight, r.exp) \/ Agrees(r.otight, r.eager)) /\ (Agrees(r.oxten, r.exp) \/ Agrees(r.oxten, r.eager)) THEN "eager"
              ELSE "bad"

Chk == LET v == Verdict(Recs[k]) IN v = "ok" \/ PrintT(<<IF v = "eager" THEN "EAGER" ELSE "MISMATCH", k>>)
=============================================================================
