------------------------------ MODULE StoreGen -------------------------------
(* Histories for C20: every sequence of Depth operations (BFS) or random     *)
(* long ones (-simulate), each with the model's result and snapshot after    *)
(* every step.  Invariants are the model-level statement of the property.    *)
EXTENDS Store, Json
CONSTANTS Depth, NoUnsetOpt
VARIABLES vars, hist
Init == vars = <<>> /\ hist = <<>>
Next == /\ Len(hist) < Depth
        /\ \E o \in Ops : LET d == Do(vars, o, NoUnsetOpt) IN
             /\ vars' = d.vars
             /\ hist' = Append(hist, [op |-> o.op, n |-> o.n, v |-> o.v, res |-> d.res, snap |-> Snapshot(d.vars, NoUnsetOpt),
                                      walk |-> Cardinality(DOMAIN d.vars)])

(* only ordinary names ever enter the store *)
OnlyOrdinary == DOMAIN vars \subseteq OrdNames
(* special and positional parameters always read the same *)
SpecialsFixed == \A n \in SpNames \cup PosNames : Get(vars, n, NoUnsetOpt) = SpValue(n, NoUnsetOpt)
(* a failing expansion / evaluation has not assigned *)
FailKeeps == [][\A o \in Ops : (Do(vars, o, NoUnsetOpt).res \in {"error:param", "error:arith"}) => Do(vars, o, NoUnsetOpt).vars = vars]_<<vars, hist>>

Emit == Len(hist) = Depth => PrintT(<<"CASE", ToJson([nounset |-> NoUnsetOpt, hist |-> hist])>>)
=============================================================================
