-------------------------------- MODULE Fault --------------------------------
(***************************************************************************)
(* C10: a failing source reader is reported as that failure.                *)
(*                                                                          *)
(* For one program the complete set of single-fault positions is recorded:  *)
(* for every rune index k in 0..len the source starts failing at k, once    *)
(* as a custom io.RuneScanner (sc) and once as an io.Reader (rd).  The      *)
(* scanner knows whether the failing read was delivered to the parser       *)
(* before it returned; the parser is deterministic, so the reader run of    *)
(* the same k reaches the fault exactly when the scanner run does.          *)
(***************************************************************************)
EXTENDS Integers, Sequences, TLC

Same(o, b) == o.err.class = b.err.class /\ o.sk = b.sk

FaultOK(base, f) ==
    /\ f.sc.panic = "" /\ f.rd.panic = ""
    /\ f.sc.delivered => /\ f.sc.erris            \* errors.Is(err, injected) ...
                         /\ f.rd.erris            \* ... for both kinds of source
    /\ ~f.sc.delivered => /\ Same(f.sc, base)     \* the parser stopped before the fault:
                          /\ Same(f.rd, base)     \* nothing may change
    \* never a nil error with a tree built from truncated input
    /\ (f.sc.err.class = "none" => Same(f.sc, base))
    /\ (f.rd.err.class = "none" => Same(f.rd, base))

(* an io.Reader that starts failing strictly inside the character k (which takes several bytes): the parser reaches the *)
(* fault exactly when it reads that character, i.e. when the scanner fault at k is delivered                            *)
InnerOK(base, fk, g) ==
    /\ g.rd.panic = ""
    /\ fk.sc.delivered => g.rd.erris
    /\ ~fk.sc.delivered => Same(g.rd, base)
    /\ (g.rd.err.class = "none" => Same(g.rd, base))

Complete(rec) == /\ Len(rec.faults) = rec.len + 1
                 /\ \A i \in 1..Len(rec.faults) : rec.faults[i].k = i - 1
=============================================================================
