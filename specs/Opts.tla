--------------------------------- MODULE Opts ---------------------------------
(* Option.String for every bit combination (C19): the letters of the set    *)
(* options in table order; IgnoreEOF, NoLog and Vi have no letter; bit 13    *)
(* and above have no meaning and no letter.                                  *)
EXTENDS Integers, Sequences, TLC, Json
Letters == <<"a", "e", "", "m", "C", "f", "n", "", "b", "u", "v", "", "x", "">>     \* bit 0 .. 13
Bit(n, i) == (n \div (2 ^ i)) % 2 = 1
RECURSIVE Str(_, _)
Str(n, i) == IF i > 13 THEN "" ELSE (IF Bit(n, i) THEN Letters[i + 1] ELSE "") \o Str(n, i + 1)
Expected(n) == Str(n, 0)
VARIABLE chunk
Init == chunk = 0
Next == chunk < 63 /\ chunk' = chunk + 1
Emit == PrintT(<<"OPTS", ToJson([base |-> chunk * 256, exp |-> [j \in 1..256 |-> Expected(chunk * 256 + j - 1)]])>>)
=============================================================================
