----------------------------- MODULE QuoteCheck ------------------------------
EXTENDS Integers, Sequences, TLC, Json, IOUtils
Q == INSTANCE Quote WITH Alpha <- <<>>, MaxLen <- 0, str <- <<>>
Recs == ndJsonDeserialize(IOEnv.VERIF_OBS)
N == Len(Recs)
VARIABLE k
Init == k = 1
Next == k < N /\ k' = k + 1
Chk == Q!Holds(Recs[k]) \/ PrintT(<<"MISMATCH", k>>)
=============================================================================
