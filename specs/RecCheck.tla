------------------------------ MODULE RecCheck ------------------------------
(* C03: observation records of the parser against the classification made  *)
(* by ShellRec.tla.                                                        *)
EXTENDS Integers, Sequences, Json, IOUtils, TLC
Recs == ndJsonDeserialize(IOEnv.VERIF_OBS)
N == Len(Recs)
VARIABLE k
Init == k = 1
Next == k < N /\ k' = k + 1

Consumed(rec) == rec.total - rec.obs.remaining

(* offset of a line:col of the source *)
OffsetOf(rec, line, col) == IF line >= 1 /\ line <= Len(rec.lines) /\ col >= 1 THEN rec.lines[line] + col - 1 ELSE -1

(* a syntax error carries the caller's name and a position that is the     *)
(* start of a token, inside the consumed text                              *)
Located(rec) ==
    LET e == rec.obs.err IN
    e.class = "syntax" =>
       /\ e.name = "<verif>"
       /\ LET o == OffsetOf(rec, e.line, e.col) IN
          /\ o >= 0 /\ o < Consumed(rec)
          /\ (rec.cls # "broken" => \E j \in 1..Len(rec.starts) : rec.starts[j] = <<e.line, e.col>>)

Holds(rec) ==
    /\ rec.obs.panic = ""
    /\ IF rec.cls = "accept"
       THEN /\ rec.obs.err.class = "none"
            /\ Consumed(rec) = (IF rec.n = 0 THEN 0 ELSE rec.offs[rec.n] + Len(rec.toks[rec.n]))
       ELSE /\ rec.obs.err.class # "none"      \* never silently accepted
            /\ Located(rec)

Chk == Holds(Recs[k]) \/ PrintT(<<"MISMATCH", k>>)
=============================================================================
