------------------------------ MODULE SplitGen ------------------------------
(* Generator + model-level check for C14: every word up to MaxLen segments  *)
(* (BFS, one state per word).  Invariant ModelOK checks the operational     *)
(* splitter against the declarative statement for every IFS setting;        *)
(* Emit prints the case with the expected fields.                           *)
EXTENDS Split, Json

CONSTANT MaxLen, EmitCases
VARIABLE segs

Init == segs = <<>>
Next == /\ Len(segs) < MaxLen
        /\ \E i \in 1..Len(SegKinds) : segs' = Append(segs, i)

ModelOK == \A n \in 1..Len(IFSNames) :
              LET w == WordOf(segs) ifs == IFSOf(IFSNames[n])
              IN  SplitOK(w, ifs, SplitIdx(w, ifs))

Emit == EmitCases => PrintT(<<"CASE", ToJson([segs |-> segs, exp |-> Expected(segs)])>>)

\* vacuity guards: reachable situations (expected to be VIOLATED when given as invariants)
NoEmptyDropped == ~(\E n \in 1..Len(IFSNames) : LET w == WordOf(segs) ifs == IFSOf(IFSNames[n]) IN
                      Len(SplitFrom(w, 1, ifs, <<>>, NoField, "start")) > Len(SplitIdx(w, ifs)))
=============================================================================
