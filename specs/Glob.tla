--------------------------------- MODULE Glob ---------------------------------
(***************************************************************************)
(* Pathname expansion (XCU 2.13.3) -- reference semantics for C16.          *)
(*                                                                          *)
(* A file system is a function from paths (sequences of names, a name is a  *)
(* sequence of symbols) to kinds "file", "dir", "link" (a dangling symbolic *)
(* link).  A pattern is a sequence of components (each a sequence of        *)
(* pattern symbols) plus a flag for a trailing slash.  Expected(fs, pat) is *)
(* the set of result paths:                                                 *)
(*   - a component without unquoted ? * [ names one path literally: it is   *)
(*     kept when that path exists (Lstat);                                  *)
(*   - any other component is matched as a whole (Pattern.tla) against the  *)
(*     names of the directory reached so far; names that begin with a       *)
(*     period match only a component that begins with a literal period;     *)
(*   - a component followed by a slash selects directories only;            *)
(*   - results are relative, without duplicates, in ascending byte order;   *)
(*     nothing matching gives the empty result;                             *)
(*   - a result is spelled with the separators of the pattern: an absolute  *)
(*     pattern (pat.abs, the root standing for the scratch directory) gives *)
(*     absolute paths, repeated slashes (pat.rep = 2) are kept as written.  *)
(***************************************************************************)
EXTENDS Integers, Sequences, SequencesExt, FiniteSets, TLC

P == INSTANCE Pattern

IsSpecial(c) == c \in {"*", "?", "["}

(* literal reading of a component: <<TRUE, name>> when it has no unquoted special, else <<FALSE>> *)
RECURSIVE LitFrom(_, _, _)
LitFrom(c, i, acc) ==
    IF i > Len(c) THEN <<TRUE, acc>>
    ELSE IF c[i] = "\\" /\ i < Len(c) THEN LitFrom(c, i + 2, Append(acc, c[i + 1]))
    ELSE IF IsSpecial(c[i]) THEN <<FALSE, <<>>>>
    ELSE LitFrom(c, i + 1, Append(acc, c[i]))
Literal(c) == LitFrom(c, 1, <<>>)

StartsWithDot(c) == Len(c) >= 1 /\ (c[1] = "." \/ (Len(c) >= 2 /\ c[1] = "\\" /\ c[2] = "."))

Children(fs, dir) == {p[Len(p)] : p \in {q \in DOMAIN fs : Len(q) = Len(dir) + 1 /\ SubSeq(q, 1, Len(dir)) = dir}}

IsDir(fs, p) == p = <<>> \/ (p \in DOMAIN fs /\ fs[p] \in {"dir", "ldir"})      \* ldir: a symbolic link to a directory
Exists(fs, p) == p \in DOMAIN fs

(* names of directory dir matched by component c *)
Matching(fs, dir, c) ==
    LET lit == Literal(c) IN
    IF lit[1] THEN (IF Exists(fs, Append(dir, lit[2])) THEN {lit[2]} ELSE {})
    ELSE LET pr == P!Parse(c) IN
         {n \in Children(fs, dir) : /\ P!Matches(pr.items, n)
                                    /\ (n[1] = "." => StartsWithDot(c))}

(* all result paths (sequences of names) for components i..n starting in dir *)
RECURSIVE Walk(_, _, _, _, _)
Walk(fs, dir, comps, i, dirsOnly) ==
    IF i > Len(comps) THEN {dir}
    ELSE LET last == i = Len(comps)
             names == Matching(fs, dir, comps[i])
             ok(n) == IF ~last \/ dirsOnly THEN IsDir(fs, Append(dir, n)) ELSE TRUE
         IN  UNION {Walk(fs, Append(dir, n), comps, i + 1, dirsOnly) : n \in {m \in names : ok(m)}}

Expected(fs, pat) == Walk(fs, <<>>, pat.comps, 1, pat.slash)

(* the spelling of result path p (a sequence of names) under pattern pat *)
SepOf(pat) == IF pat.rep = 2 THEN <<"/", "/">> ELSE <<"/">>
RECURSIVE JoinNames(_, _)
JoinNames(p, sep) == IF Len(p) = 0 THEN <<>> ELSE IF Len(p) = 1 THEN p[1] ELSE p[1] \o sep \o JoinNames(Tail(p), sep)
Render(p, pat) == (IF pat.abs THEN <<"ROOT", "/">> ELSE <<>>) \o JoinNames(p, SepOf(pat)) \o (IF pat.slash THEN SepOf(pat) ELSE <<>>)
ExpectedStrings(fs, pat) == {Render(p, pat) : p \in Expected(fs, pat)}

(* The pattern written as a word and expanded (XCU 2.6.6): the matching paths, or -- when nothing matches -- the   *)
(* word itself with its quotes removed.                                                                            *)
RECURSIVE Unq(_, _)
Unq(c, i) == IF i > Len(c) THEN <<>> ELSE IF c[i] = "\\" /\ i < Len(c) THEN <<c[i + 1]>> \o Unq(c, i + 2) ELSE <<c[i]>> \o Unq(c, i + 1)
WordText(pat) == JoinNames([i \in 1..Len(pat.comps) |-> Unq(pat.comps[i], 1)], <<"/">>) \o (IF pat.slash THEN <<"/">> ELSE <<>>)
ExpectedWord(fs, pat) == LET m == ExpectedStrings(fs, pat) IN IF m = {} THEN {WordText(pat)} ELSE m

(* an unusable pattern: a component that Pattern.tla does not accept as well-formed *)
WellFormed(pat) == \A i \in 1..Len(pat.comps) : Literal(pat.comps[i])[1] \/ P!Parse(pat.comps[i]).st = "ok"
=============================================================================
