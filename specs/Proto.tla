-------------------------------- MODULE Proto --------------------------------
(***************************************************************************)
(* The hand-off protocol between a lexer goroutine and the goroutine that   *)
(* runs the LALR parser on its tokens (parser/lexer.go, interp/lexer.go),   *)
(* as it is after the lock-step repair: one action per synchronisation      *)
(* point of the code, named after the verif hook that is logged there.      *)
(*                                                                          *)
(*   lexer l            goroutine running lexer.run                      *)
(*   parser of l        the goroutine running yyParse(l): the caller of     *)
(*                      ParseCommands / Eval for l = 1, the goroutine of    *)
(*                      lexer par[l] for a command substitution             *)
(*                                                                          *)
(* Channels: req (unbuffered, parser -> lexer: "scan the next token"),      *)
(* token (unbuffered, lexer -> parser), cancel / done (closed once),        *)
(* heredoc.c (capacity 1).  The two rendezvous are the silent actions       *)
(* X_Req and X_Tok; everything else is an observable event.                 *)
(*                                                                          *)
(* The module defines the actions with explicit parameters and the safety   *)
(* properties.  ProtoModel.tla drives the actions from abstract scripts     *)
(* (all scripts up to a bound x all interleavings); ProtoTrace.tla drives   *)
(* them from event traces recorded from the real code.                      *)
(***************************************************************************)
EXTENDS Integers, Sequences, FiniteSets, TLC

CONSTANTS MaxL,             \* number of lexers that may exist (1 + nesting depth)
          Lockstep,         \* TRUE: the lexer waits for a request after every emit (the code as it is)
          CancelPriority,   \* TRUE: a closed cancel wins over a pending request (the code as it is)
          JoinOnReturn      \* TRUE: the parser side waits for done before returning (the code as it is)

Lexers == 1..MaxL

VARIABLES
    lpc,        \* lexer control point: absent new started waiting gotreq scanning nested hwait emit sent bailing exiting done
    ppc,        \* parser control point: absent idle req reqd tok got act eof parsed joined
    par,        \* par[l] = lexer whose goroutine parses l (0: the caller)
    cancel, tokClosed, doneClosed,
    err,        \* error slot: <<"none">>, <<"read", k>>, <<"syn", who, k>>
    hn, hq, hc, \* heredoc.n, len(heredoc.stack), len(heredoc.c)
    reads,      \* runes read from the source so far
    nlex,       \* lexers created so far
    ret, res    \* the outermost call has returned; its result snapshot

vars == <<lpc, ppc, par, cancel, tokClosed, doneClosed, err, hn, hq, hc, reads, nlex, ret, res>>

NoErr == <<"none">>
IsRead(e) == e[1] = "read"

TypeOK ==
    /\ lpc \in [Lexers -> {"absent", "new", "started", "waiting", "gotreq", "scanning", "nested", "hwait", "emit", "sent",
                           "bailing", "exiting", "done"}]
    /\ ppc \in [Lexers -> {"absent", "idle", "req", "reqd", "tok", "got", "act", "eof", "parsed", "joined"}]
    /\ par \in [Lexers -> 0..MaxL]
    /\ cancel \in [Lexers -> BOOLEAN] /\ tokClosed \in [Lexers -> BOOLEAN] /\ doneClosed \in [Lexers -> BOOLEAN]
    /\ hn \in [Lexers -> Nat] /\ hq \in [Lexers -> Nat] /\ hc \in [Lexers -> 0..1]
    /\ reads \in Nat /\ nlex \in 0..MaxL /\ ret \in BOOLEAN

Init ==
    /\ lpc = [l \in Lexers |-> "absent"] /\ ppc = [l \in Lexers |-> "absent"] /\ par = [l \in Lexers |-> 0]
    /\ cancel = [l \in Lexers |-> FALSE] /\ tokClosed = [l \in Lexers |-> FALSE] /\ doneClosed = [l \in Lexers |-> FALSE]
    /\ err = [l \in Lexers |-> NoErr]
    /\ hn = [l \in Lexers |-> 0] /\ hq = [l \in Lexers |-> 0] /\ hc = [l \in Lexers |-> 0]
    /\ reads = 0 /\ nlex = 0 /\ ret = FALSE /\ res = <<>>

(* the rule of lexer.error: a recorded read error is kept; "unexpected   *)
(* EOF" after any error is ignored (lexing was interrupted); otherwise the  *)
(* new error replaces the old one                                           *)
Record(old, new, eofmsg) ==
    IF old # NoErr /\ eofmsg THEN old
    ELSE IF IsRead(old) THEN old
    ELSE new

(***************************************************************************)
(* Creation.  L.new is logged by the goroutine that creates the lexer and   *)
(* then runs its parser: the caller (p = 0) or a scanning lexer p.          *)
(***************************************************************************)
L_New(l, p) ==
    /\ l = nlex + 1 /\ l \in Lexers /\ ~ret
    /\ IF p = 0 THEN l = 1 ELSE lpc[p] = "scanning"
    /\ nlex' = l
    /\ lpc' = IF p = 0 THEN [lpc EXCEPT ![l] = "new"] ELSE [lpc EXCEPT ![l] = "new", ![p] = "nested"]
    /\ ppc' = [ppc EXCEPT ![l] = "idle"]
    /\ par' = [par EXCEPT ![l] = p]
    /\ UNCHANGED <<cancel, tokClosed, doneClosed, err, hn, hq, hc, reads, ret, res>>

(***************************************************************************)
(* Lexer.                                                                   *)
(***************************************************************************)
L_Start(l) == /\ lpc[l] = "new" /\ lpc' = [lpc EXCEPT ![l] = "started"]
              /\ UNCHANGED <<ppc, par, cancel, tokClosed, doneClosed, err, hn, hq, hc, reads, nlex, ret, res>>

(* about to select on req / cancel *)
L_Wait(l) == /\ lpc[l] \in (IF Lockstep THEN {"started", "sent"} ELSE {})
             /\ lpc' = [lpc EXCEPT ![l] = "waiting"]
             /\ UNCHANGED <<ppc, par, cancel, tokClosed, doneClosed, err, hn, hq, hc, reads, nlex, ret, res>>

(* silent: the request rendezvous *)
X_Req(l) == /\ lpc[l] = "waiting" /\ ppc[l] = "req"
            /\ lpc' = [lpc EXCEPT ![l] = "gotreq"] /\ ppc' = [ppc EXCEPT ![l] = "reqd"]
            /\ UNCHANGED <<par, cancel, tokClosed, doneClosed, err, hn, hq, hc, reads, nlex, ret, res>>

(* the request was taken and cancel is not closed: scan the next token *)
L_Go(l) == /\ lpc[l] = "gotreq" /\ (CancelPriority => ~cancel[l])
           /\ lpc' = [lpc EXCEPT ![l] = "scanning"]
           /\ UNCHANGED <<ppc, par, cancel, tokClosed, doneClosed, err, hn, hq, hc, reads, nlex, ret, res>>

(* without lock step the lexer scans on as soon as it is started / has sent *)
L_RunAhead(l) == /\ ~Lockstep /\ lpc[l] \in {"started", "sent"}
                 /\ lpc' = [lpc EXCEPT ![l] = "scanning"]
                 /\ UNCHANGED <<ppc, par, cancel, tokClosed, doneClosed, err, hn, hq, hc, reads, nlex, ret, res>>

(* cancel observed in wait() or in emit(): panic(bailout) *)
L_Bail(l) == /\ cancel[l] /\ lpc[l] \in {"waiting", "gotreq", "emit"}
             /\ lpc' = [lpc EXCEPT ![l] = "bailing"]
             /\ UNCHANGED <<ppc, par, cancel, tokClosed, doneClosed, err, hn, hq, hc, reads, nlex, ret, res>>

L_Read(l) == /\ lpc[l] = "scanning" /\ reads' = reads + 1
             /\ UNCHANGED <<lpc, ppc, par, cancel, tokClosed, doneClosed, err, hn, hq, hc, nlex, ret, res>>

(* a read that fails: read() records the error unless one is recorded *)
L_ReadFault(l) == /\ lpc[l] = "scanning"
                  /\ err' = [err EXCEPT ![l] = IF @ = NoErr THEN <<"read", reads>> ELSE @]
                  /\ UNCHANGED <<lpc, ppc, par, cancel, tokClosed, doneClosed, hn, hq, hc, reads, nlex, ret, res>>

(* error() called by the lexer goroutine (k identifies the error) *)
L_Error(l, k, eofmsg) ==
    /\ lpc[l] = "scanning"
    /\ err' = [err EXCEPT ![l] = Record(@, <<"syn", "L", k>>, eofmsg)]
    /\ cancel' = [cancel EXCEPT ![l] = TRUE]
    /\ UNCHANGED <<lpc, ppc, par, tokClosed, doneClosed, hn, hq, hc, reads, nlex, ret, res>>

L_HdInc(l) == /\ lpc[l] = "scanning" /\ hn' = [hn EXCEPT ![l] = @ + 1]
              /\ UNCHANGED <<lpc, ppc, par, cancel, tokClosed, doneClosed, err, hq, hc, reads, nlex, ret, res>>

(* heredoc.pop: one redirection taken from the queue *)
L_HdGot(l) == /\ lpc[l] = "scanning" /\ hn[l] > 0 /\ hq[l] > 0
              /\ hq' = [hq EXCEPT ![l] = @ - 1] /\ hn' = [hn EXCEPT ![l] = @ - 1]
              /\ UNCHANGED <<lpc, ppc, par, cancel, tokClosed, doneClosed, err, hc, reads, nlex, ret, res>>

(* heredoc.pop finds the queue empty and waits on heredoc.c *)
L_HdWait(l) == /\ lpc[l] = "scanning" /\ hn[l] > 0 /\ hq[l] = 0
               /\ lpc' = [lpc EXCEPT ![l] = "hwait"]
               /\ UNCHANGED <<ppc, par, cancel, tokClosed, doneClosed, err, hn, hq, hc, reads, nlex, ret, res>>

X_HdWake(l) == /\ lpc[l] = "hwait" /\ hc[l] = 1
               /\ hc' = [hc EXCEPT ![l] = 0] /\ lpc' = [lpc EXCEPT ![l] = "scanning"]
               /\ UNCHANGED <<ppc, par, cancel, tokClosed, doneClosed, err, hn, hq, reads, nlex, ret, res>>

(* about to select on token / cancel *)
L_Emit(l) == /\ lpc[l] = "scanning" /\ lpc' = [lpc EXCEPT ![l] = "emit"]
             /\ UNCHANGED <<ppc, par, cancel, tokClosed, doneClosed, err, hn, hq, hc, reads, nlex, ret, res>>

(* silent: the token rendezvous.  emit() checks cancel first, so a lexer that has recorded an error *)
(* itself (a failed look-ahead) never hands over another token                                      *)
X_Tok(l) == /\ lpc[l] = "emit" /\ ppc[l] = "tok"
            /\ (CancelPriority => ~cancel[l])
            /\ lpc' = [lpc EXCEPT ![l] = "sent"] /\ ppc' = [ppc EXCEPT ![l] = "got"]
            /\ UNCHANGED <<par, cancel, tokClosed, doneClosed, err, hn, hq, hc, reads, nlex, ret, res>>

(* the deferred function of run(): L.exit is logged, then token and done are closed *)
L_Exit(l) == /\ lpc[l] \in {"scanning", "bailing"}
             /\ lpc' = [lpc EXCEPT ![l] = "exiting"]
             /\ UNCHANGED <<ppc, par, cancel, tokClosed, doneClosed, err, hn, hq, hc, reads, nlex, ret, res>>

X_Close(l) == /\ lpc[l] = "exiting"
              /\ lpc' = [lpc EXCEPT ![l] = "done"]
              /\ tokClosed' = [tokClosed EXCEPT ![l] = TRUE] /\ doneClosed' = [doneClosed EXCEPT ![l] = TRUE]
              /\ UNCHANGED <<ppc, par, cancel, err, hn, hq, hc, reads, nlex, ret, res>>

(***************************************************************************)
(* Parser of lexer l.                                                       *)
(***************************************************************************)
(* Lex: about to select on req <- / <-done *)
P_Req(l) == /\ ppc[l] \in {"idle", "act"} /\ ppc' = [ppc EXCEPT ![l] = "req"]
            /\ UNCHANGED <<lpc, par, cancel, tokClosed, doneClosed, err, hn, hq, hc, reads, nlex, ret, res>>

(* the request was delivered (or the lexer is done, or -- without lock step -- no request is made) *)
P_Tok(l) == /\ ppc[l] = "reqd" \/ (ppc[l] = "req" /\ (doneClosed[l] \/ ~Lockstep))
            /\ ppc' = [ppc EXCEPT ![l] = "tok"]
            /\ UNCHANGED <<lpc, par, cancel, tokClosed, doneClosed, err, hn, hq, hc, reads, nlex, ret, res>>

(* a token was received (n > 0), or the channel is closed (n = 0: EOF) *)
P_Recv(l, n) ==
    /\ IF n > 0 THEN ppc[l] = "got" ELSE ppc[l] = "tok" /\ tokClosed[l]
    /\ ppc' = [ppc EXCEPT ![l] = IF n > 0 THEN "act" ELSE "eof"]
    /\ UNCHANGED <<lpc, par, cancel, tokClosed, doneClosed, err, hn, hq, hc, reads, nlex, ret, res>>

(* Error() called from the parser goroutine: yacc syntax error or an error of a grammar action *)
P_Error(l, k, eofmsg) ==
    /\ ppc[l] \in {"act", "eof"}
    /\ err' = [err EXCEPT ![l] = Record(@, <<"syn", "P", k>>, eofmsg)]
    /\ cancel' = [cancel EXCEPT ![l] = TRUE]
    /\ UNCHANGED <<lpc, ppc, par, tokClosed, doneClosed, hn, hq, hc, reads, nlex, ret, res>>

(* the grammar reduces io_here: heredoc.push *)
P_HdPush(l) == /\ ppc[l] \in {"act", "eof"} /\ hq' = [hq EXCEPT ![l] = @ + 1] /\ hc' = [hc EXCEPT ![l] = 1]
               /\ UNCHANGED <<lpc, ppc, par, cancel, tokClosed, doneClosed, err, hn, reads, nlex, ret, res>>

(* yyParse returned *)
P_Parsed(l) == /\ ppc[l] \in {"act", "eof"} /\ ppc' = [ppc EXCEPT ![l] = "parsed"]
               /\ UNCHANGED <<lpc, par, cancel, tokClosed, doneClosed, err, hn, hq, hc, reads, nlex, ret, res>>

(* <-l.done passed; for the outermost lexer the call returns with (err, reads); for a nested one *)
(* the enclosing lexer takes over the error (without closing its own cancel) and scans on       *)
P_Joined(l) ==
    /\ ppc[l] = "parsed" /\ (JoinOnReturn => doneClosed[l])
    /\ ppc' = [ppc EXCEPT ![l] = "joined"]
    /\ IF par[l] = 0
       THEN /\ ret' = TRUE /\ res' = <<err[l], reads>>
            /\ UNCHANGED <<lpc, err>>
       ELSE /\ lpc' = [lpc EXCEPT ![par[l]] = "scanning"]
            /\ err' = [err EXCEPT ![par[l]] = IF err[l] # NoErr THEN err[l] ELSE @]
            /\ UNCHANGED <<ret, res>>
    /\ UNCHANGED <<par, cancel, tokClosed, doneClosed, hn, hq, hc, reads, nlex>>

(***************************************************************************)
(* Safety properties (state invariants and one action property).           *)
(***************************************************************************)
(* C06: when the call returns no goroutine it started is still running *)
Quiescent == ret => \A l \in Lexers : lpc[l] \in {"absent", "done"}

(* C06: nothing touches the reader or the results after the return *)
Stable == [][ret => UNCHANGED <<err, reads, res>>]_vars

(* the Go select of emit() / wait() never has two ready branches with different outcomes: whenever the *)
(* token could be handed over while cancel is closed, the cancel-first rule decides                     *)
NoSelectRace == \A l \in Lexers : (lpc[l] = "emit" /\ ppc[l] = "tok" /\ cancel[l]) => CancelPriority

(* lock step: a here-document is always pushed before the lexer wants to read it *)
PopNeverWaits == \A l \in Lexers : lpc[l] # "hwait"

(* C08: never more redirections queued than announced *)
HdBalance == \A l \in Lexers : hq[l] <= hn[l]

(* C10: a recorded read error is never replaced *)
ReadErrorKept == [][\A l \in Lexers : IsRead(err[l]) => err'[l] = err[l]]_vars

(* C01/C06: the only states without successor are those where the call has returned and everything is done *)
Finished == ret /\ \A l \in Lexers : lpc[l] \in {"absent", "done"}
=============================================================================
