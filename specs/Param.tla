-------------------------------- MODULE Param --------------------------------
(***************************************************************************)
(* Parameter expansion (XCU 2.6.2) -- reference semantics for C13.          *)
(*                                                                          *)
(* A case is a record                                                       *)
(*   p       parameter: "v" (ordinary), "1" (positional), "@", "*",         *)
(*           "#" (special, always set), "!" (special, unset)                *)
(*   vst     state of v: "unset", "null", "x", "xy" (value "x y")           *)
(*   args    positional parameters: sequence of values (each "", "x", "yz"  *)
(*           where "yz" stands for "y z")                                   *)
(*   op      "", ":-", "-", ":=", "=", ":?", "?", ":+", "+", "len",         *)
(*           "%", "%%", "#", "##"                                           *)
(*   w       word: "w", "uv" ("u v"), "at" ("$@"), "side" (${y:=s}: a side   *)
(*           effect that                                                    *)
(*           shows whether the word was expanded), "pat" (a pattern)        *)
(*   q       quoting: "none", "dq" (the whole expansion in double quotes),  *)
(*           "wq" (the word single-quoted)                                  *)
(*   ifs     "default", "comma", "empty"                                    *)
(*   nounset BOOLEAN                                                        *)
(* Values are sequences of symbols (Split.tla / Pattern.tla conventions).   *)
(* Expected(c) = [err, fields, yset, vafter]                                *)
(***************************************************************************)
EXTENDS Integers, Sequences, SequencesExt, TLC

S == INSTANCE Split
P == INSTANCE Pattern

Val(s) == CASE s = "x"  -> <<"x">>
            [] s = "xy" -> <<"x", "SP", "y">>
            [] s = "yz" -> <<"y", ",", "z">>
            [] s = "w"  -> <<"w">>
            [] s = "uv" -> <<"u", "SP", "v">>
            [] s = "s"  -> <<"s">>
            [] s = "mb" -> <<"n", "U1">>              \* two characters, three bytes
            [] s = "bs2" -> <<"a", "\\", "\\">>          \* ends in two backslashes
            [] OTHER    -> <<>>

IFSSet(i) == CASE i = "comma" -> {","} [] i = "empty" -> {} [] i = "mb" -> {"U1", ","} [] i = "digit" -> {"1", "2"} [] OTHER -> S!DefaultIFS
IFSFirst(i) == CASE i = "comma" -> <<",">> [] i = "empty" -> <<>> [] i = "mb" -> <<"U1">> [] i = "digit" -> <<"1">> [] OTHER -> <<"SP">>    \* the first CHARACTER of IFS

RECURSIVE JoinWith(_, _)
JoinWith(vs, sep) == IF Len(vs) = 0 THEN <<>> ELSE IF Len(vs) = 1 THEN vs[1] ELSE vs[1] \o sep \o JoinWith(Tail(vs), sep)

(* [set, null, vals]: vals is the list of values the parameter stands for *)
State(c) ==
    LET av == [i \in 1..Len(c.args) |-> Val(c.args[i])] IN
    CASE c.p = "v" -> [set |-> c.vst # "unset", null |-> c.vst = "null", vals |-> IF c.vst = "unset" THEN <<>> ELSE <<Val(c.vst)>>]
      [] c.p = "big" -> [set |-> FALSE, null |-> FALSE, vals |-> <<>>]     \* a positional parameter with a 20-digit number
      [] c.p = "1" -> [set |-> Len(av) >= 1, null |-> Len(av) >= 1 /\ av[1] = <<>>, vals |-> IF Len(av) >= 1 THEN <<av[1]>> ELSE <<>>]
      [] c.p = "@" -> [set |-> TRUE, null |-> Len(av) = 0 \/ (Len(av) = 1 /\ av[1] = <<>>), vals |-> av]
      \* unquoted, $* stands for one field per positional parameter (each split further), like $@;
      \* in double quotes for the parameters joined by the first character of IFS
      [] c.p = "*" -> [set |-> TRUE, null |-> Len(av) = 0 \/ (Len(av) = 1 /\ av[1] = <<>>),
                       vals |-> IF Len(av) = 0 THEN <<>> ELSE IF c.q = "dq" THEN <<JoinWith(av, IFSFirst(c.ifs))>> ELSE av]
      [] c.p = "#" -> [set |-> TRUE, null |-> FALSE, vals |-> << <<ToString(Len(av))>> >>]
      \* $- is always set; without any option it is null (the driver sets no option but nounset for this parameter)
      [] c.p = "-" -> [set |-> TRUE, null |-> ~c.nounset, vals |-> << (IF c.nounset THEN <<"u">> ELSE <<>>) >>]
      [] OTHER     -> [set |-> FALSE, null |-> FALSE, vals |-> <<>>]           \* "!"

(* a pre-field: positions [c, q] *)
Pos(v, q) == [i \in 1..Len(v) |-> [c |-> v[i], q |-> q]]
(* a quoted empty string still makes a field *)
PosQ(v, q) == IF v = <<>> /\ q THEN <<[c |-> "", q |-> TRUE]>> ELSE Pos(v, q)

(* the word of the operator, expanded: [val, q (quoted), side (y assigned)] *)
WordOf(c) == CASE c.w = "w"    -> [val |-> Val("w"),  side |-> FALSE]
               [] c.w = "uv"   -> [val |-> Val("uv"), side |-> FALSE]
               [] c.w = "side" -> [val |-> Val("s"),  side |-> TRUE]
               [] OTHER        -> [val |-> <<>>, side |-> FALSE]

InDQ(c) == c.q = "dq"
WordQuoted(c) == c.q \in {"dq", "wq"}

(* fields of a list of pre-fields *)
FieldsOf(pfs, c) ==
    LET per == [i \in 1..Len(pfs) |-> S!Split(pfs[i], IFSSet(c.ifs))] IN FlattenSeq(per)

(* the pre-fields of the parameter's own value *)
ValuePre(st, c) ==
    IF c.p = "@" \/ (c.p = "*" /\ c.q # "dq") THEN [i \in 1..Len(st.vals) |-> PosQ(st.vals[i], InDQ(c))]
    ELSE IF Len(st.vals) = 0 THEN (IF InDQ(c) THEN << <<[c |-> "", q |-> TRUE]>> >> ELSE << <<>> >>)
    ELSE << PosQ(st.vals[1], InDQ(c)) >>

Ok(pfs, c, side, vafter) == [err |-> "none", fields |-> FieldsOf(pfs, c), yset |-> side, vafter |-> vafter]
Fail(c) == [err |-> "param", fields |-> <<>>, yset |-> FALSE, vafter |-> c.vst]

(* the word "$@" (c.w = "at") stands for one quoted pre-field per positional parameter, none without parameters *)
WordPre(c) == IF c.w = "at" THEN [i \in 1..Len(c.args) |-> PosQ(Val(c.args[i]), TRUE)]
              ELSE LET w == WordOf(c) IN << PosQ(w.val, WordQuoted(c)) >>

(* pattern of the % # operators: "x*" for prefixes, "*y" ... kept simple: ? *)
PatItems(w) == IF w = "patbs" THEN <<P!Chr("\\")>> ELSE <<P!AnyC>>        \* the pattern ? / a quoted backslash
StripOne(v, op, w) ==
    LET k == P!Res({PatItems(w)}, v, CASE op = "%" -> "ss" [] op = "%%" -> "sl" [] op = "#" -> "ps" [] OTHER -> "pl") IN
    IF k = -1 THEN v
    ELSE IF op \in {"%", "%%"} THEN SubSeq(v, 1, Len(v) - k) ELSE SubSeq(v, k + 1, Len(v))

Expected(c) ==
    LET st  == State(c)
        use == \* does the operator use the word?
               CASE c.op \in {":-", ":=", ":?"} -> ~st.set \/ st.null
                 [] c.op \in {"-", "=", "?"}    -> ~st.set
                 [] c.op = ":+"                 -> st.set /\ ~st.null
                 [] c.op = "+"                  -> st.set
                 [] OTHER                       -> FALSE
        w   == WordOf(c)
    IN
    CASE c.op = "" ->
           IF ~st.set /\ c.nounset /\ c.p \notin {"@", "*"} THEN Fail(c)
           ELSE Ok(ValuePre(st, c), c, FALSE, c.vst)
      [] c.op \in {":-", "-"} ->
           IF use THEN Ok(WordPre(c), c, w.side, c.vst) ELSE Ok(ValuePre(st, c), c, FALSE, c.vst)
      [] c.op \in {":=", "="} ->
           IF ~use THEN Ok(ValuePre(st, c), c, FALSE, c.vst)
           ELSE IF c.p # "v" THEN Fail(c)                                   \* only variables can be assigned
           ELSE Ok(WordPre(c), c, w.side, IF c.w = "side" THEN "s" ELSE c.w)  \* v := expansion of the word
      [] c.op \in {":?", "?"} ->
           IF use THEN [err |-> "param", fields |-> <<>>, yset |-> w.side, vafter |-> c.vst]   \* the word is expanded for the message
           ELSE Ok(ValuePre(st, c), c, FALSE, c.vst)
      [] c.op \in {":+", "+"} ->
           IF use THEN Ok(WordPre(c), c, w.side, c.vst)
           ELSE Ok((IF InDQ(c) THEN << <<[c |-> "", q |-> TRUE]>> >> ELSE << <<>> >>), c, FALSE, c.vst)
      [] c.op = "len" ->
           IF ~st.set THEN (IF c.nounset THEN Fail(c) ELSE Ok(<< Pos(<<"0">>, InDQ(c)) >>, c, FALSE, c.vst))
           ELSE LET n == IF c.p = "@" THEN Len(st.vals) ELSE IF Len(st.vals) = 0 THEN 0 ELSE Len(st.vals[1])
                IN Ok(<< Pos(<<ToString(n)>>, InDQ(c)) >>, c, FALSE, c.vst)
      [] OTHER ->    \* % %% # ##  with the pattern ?
           IF ~st.set THEN (IF c.nounset THEN Fail(c) ELSE Ok(ValuePre(st, c), c, FALSE, c.vst))
           ELSE IF c.p = "@" THEN Ok([i \in 1..Len(st.vals) |-> PosQ(StripOne(st.vals[i], c.op, c.w), InDQ(c))], c, FALSE, c.vst)
           ELSE IF Len(st.vals) = 0 THEN Ok(ValuePre(st, c), c, FALSE, c.vst)
           ELSE Ok(<< PosQ(StripOne(st.vals[1], c.op, c.w), InDQ(c)) >>, c, FALSE, c.vst)

(* cells where the property leaves the result open *)
Unspecified(c) == \/ c.p = "*" /\ c.op = "len"                 \* ${#*} is unspecified by POSIX
                  \/ c.p = "*" /\ c.op \in {"%", "%%", "#", "##"}   \* so is pattern removal applied to $*
                  \* "${@ op word}" without positional parameters: POSIX fixes "zero fields" only for "$@" itself
                  \/ c.p = "@" /\ Len(c.args) = 0 /\ c.q = "dq" /\ c.op \notin {"", "len", ":-"}     \* (the length is 0; with :- the default word is used and is the result)

Holds(rec) ==
    LET e == Expected(rec.c) o == rec.obs IN
    /\ o.panic = ""
    /\ Unspecified(rec.c) \/
         /\ o.err = e.err
         /\ e.err = "none" => /\ o.fields = e.fields
                              /\ o.yset = e.yset                 \* the word was expanded iff it was used
                              /\ o.vafter = e.vafter             \* the assignment was performed iff prescribed
         /\ e.err # "none" => o.vafter = rec.c.vst /\ o.yset = e.yset   \* a failing expansion does not assign the parameter
=============================================================================
