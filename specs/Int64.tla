-------------------------------- MODULE Int64 --------------------------------
(***************************************************************************)
(* Two's-complement 64-bit integers for TLC, whose own integers are 32-bit  *)
(* and raise an error on overflow.  A value is a sequence of 8 bytes,       *)
(* least significant first.  All operators stay within small numbers        *)
(* (products of two bytes, sums of eight such products).                    *)
(* Used by Arith.tla (C11).  The self-test (Int64Test.tla) checks the       *)
(* operators against a vector table computed with Go's int64.               *)
(***************************************************************************)
EXTENDS Integers, Sequences, Bitwise, TLC

Zero == <<0, 0, 0, 0, 0, 0, 0, 0>>
One  == <<1, 0, 0, 0, 0, 0, 0, 0>>
MaxI == <<255, 255, 255, 255, 255, 255, 255, 127>>
MinI == <<0, 0, 0, 0, 0, 0, 0, 128>>
MinusOne == <<255, 255, 255, 255, 255, 255, 255, 255>>

IsNeg(a) == a[8] >= 128
Not64(a) == [i \in 1..8 |-> 255 - a[i]]

RECURSIVE AddC(_, _, _, _)
AddC(a, b, i, c) == IF i > 8 THEN <<>> ELSE LET s == TLCEval(a[i] + b[i] + c) IN <<s % 256>> \o AddC(a, b, i + 1, s \div 256)
Add(a, b) == AddC(a, b, 1, 0)
Neg(a) == Add(Not64(a), One)
Sub(a, b) == Add(a, Neg(b))

(* non-negative small integer -> value; n < 2^31 *)
FromNat(n) == [i \in 1..8 |-> IF i <= 4 THEN (n \div (256 ^ (i - 1))) % 256 ELSE 0]
FromInt(n) == IF n >= 0 THEN FromNat(n) ELSE Neg(FromNat(-n))

(* fits in 30 bits (as a signed value)? then ToInt is defined *)
IsSmall(a) == \/ (a[5] = 0 /\ a[6] = 0 /\ a[7] = 0 /\ a[8] = 0 /\ a[4] < 64)
              \/ (a[5] = 255 /\ a[6] = 255 /\ a[7] = 255 /\ a[8] = 255 /\ a[4] >= 192)
ToNat4(a) == a[1] + 256 * a[2] + 65536 * a[3] + 16777216 * a[4]
ToInt(a) == IF a[8] = 0 THEN ToNat4(a) ELSE -ToNat4(Neg(a))

(* multiplication modulo 2^64: column sums with carry *)
Col(a, b, k) == LET RECURSIVE S(_) S(i) == IF i > k THEN 0 ELSE a[i] * b[k - i + 1] + S(i + 1) IN S(1)
RECURSIVE MulC(_, _, _, _)
MulC(a, b, k, c) == IF k > 8 THEN <<>> ELSE LET s == TLCEval(Col(a, b, k) + c) IN <<s % 256>> \o MulC(a, b, k + 1, s \div 256)
Mul(a, b) == MulC(a, b, 1, 0)

(* unsigned comparison from the most significant byte *)
RECURSIVE ULtFrom(_, _, _)
ULtFrom(a, b, i) == IF i = 0 THEN FALSE ELSE IF a[i] # b[i] THEN a[i] < b[i] ELSE ULtFrom(a, b, i - 1)
ULt(a, b) == ULtFrom(a, b, 8)
Lt(a, b) == IF IsNeg(a) # IsNeg(b) THEN IsNeg(a) ELSE ULt(a, b)
Le(a, b) == a = b \/ Lt(a, b)

(* logical shift left by one bit / right by one bit (unsigned) *)
Shl1(a) == [i \in 1..8 |-> ((a[i] * 2) % 256) + (IF i > 1 /\ a[i - 1] >= 128 THEN 1 ELSE 0)]
UShr1(a) == [i \in 1..8 |-> (a[i] \div 2) + (IF i < 8 /\ a[i + 1] % 2 = 1 THEN 128 ELSE 0)]
Bit(a, n) == (a[(n \div 8) + 1] \div (2 ^ (n % 8))) % 2        \* bit n (0 = least significant)

(* shifts by 0 <= n < 64 *)
ShlBytes(a, q) == [i \in 1..8 |-> IF i - q >= 1 THEN a[i - q] ELSE 0]
RECURSIVE ShlBits(_, _)
ShlBits(a, s) == IF s = 0 THEN a ELSE ShlBits(TLCEval(Shl1(a)), s - 1)
Shl(a, n) == ShlBits(ShlBytes(a, n \div 8), n % 8)

ShrBytes(a, q, fill) == [i \in 1..8 |-> IF i + q <= 8 THEN a[i + q] ELSE fill]
AShr1(a) == LET r == UShr1(a) IN [r EXCEPT ![8] = r[8] + (IF IsNeg(a) THEN 128 ELSE 0)]
RECURSIVE AShrBits(_, _)
AShrBits(a, s) == IF s = 0 THEN a ELSE AShrBits(TLCEval(AShr1(a)), s - 1)
Shr(a, n) == AShrBits(ShrBytes(a, n \div 8, IF IsNeg(a) THEN 255 ELSE 0), n % 8)      \* arithmetic shift

And64(a, b) == [i \in 1..8 |-> a[i] & b[i]]
Or64(a, b)  == [i \in 1..8 |-> a[i] | b[i]]
Xor64(a, b) == [i \in 1..8 |-> a[i] ^^ b[i]]

(* unsigned division, restoring, bit by bit: [q, r] ; d # Zero *)
RECURSIVE UDivFrom(_, _, _, _, _)
UDivFrom(n, d, i, q, r) ==     \* TLCEval: evaluate eagerly (TLC would re-evaluate the lazy arguments at every level)
    IF i < 0 THEN [q |-> q, r |-> r]
    ELSE LET r1 == TLCEval(LET s == Shl1(r) IN [s EXCEPT ![1] = s[1] + Bit(n, i)])
             ge == TLCEval(~ULt(r1, d))
             r2 == TLCEval(IF ge THEN Sub(r1, d) ELSE r1)
             q2 == TLCEval(IF ge THEN [q EXCEPT ![(i \div 8) + 1] = @ + 2 ^ (i % 8)] ELSE q)
         IN  UDivFrom(n, d, i - 1, q2, r2)
UDivMod(n, d) == UDivFrom(TLCEval(n), TLCEval(d), 63, Zero, Zero)

Abs(a) == IF IsNeg(a) THEN Neg(a) ELSE a          \* |MinI| = 2^63 as an unsigned value

(* C / Go truncated division; d # Zero; MinI / -1 wraps to MinI *)
DivT(a, b) ==
    IF IsSmall(a) /\ IsSmall(b)
    THEN LET x == ToInt(a) y == ToInt(b) IN
         LET q == (IF x >= 0 THEN x ELSE -x) \div (IF y >= 0 THEN y ELSE -y) IN
         FromInt(IF (x < 0) # (y < 0) THEN -q ELSE q)
    ELSE LET q == UDivMod(Abs(a), Abs(b)).q IN IF IsNeg(a) # IsNeg(b) THEN Neg(q) ELSE q
RemT(a, b) ==
    IF IsSmall(a) /\ IsSmall(b)
    THEN LET x == ToInt(a) y == ToInt(b) IN
         LET r == (IF x >= 0 THEN x ELSE -x) % (IF y >= 0 THEN y ELSE -y) IN
         FromInt(IF x < 0 THEN -r ELSE r)
    ELSE LET r == UDivMod(Abs(a), Abs(b)).r IN IF IsNeg(a) THEN Neg(r) ELSE r

Bool(p) == IF p THEN One ELSE Zero
=============================================================================
