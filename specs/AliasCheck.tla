----------------------------- MODULE AliasCheck ------------------------------
(* C17: parsing with the alias table gives the same program as parsing the  *)
(* text produced by the substitution machine of Alias.tla without aliases.  *)
EXTENDS Integers, Sequences, Json, IOUtils, TLC
Recs == ndJsonDeserialize(IOEnv.VERIF_OBS)
N == Len(Recs)
VARIABLE k
Init == k = 1
Next == k < N /\ k' = k + 1
Holds(r) == /\ r.with.panic = "" /\ r.plain.panic = ""
            /\ r.with.err.class = r.plain.err.class
            /\ (r.plain.err.class = "none" => r.with.sk = r.plain.sk)
Chk == Holds(Recs[k]) \/ PrintT(<<"MISMATCH", k>>)
=============================================================================
