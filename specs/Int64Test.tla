------------------------------ MODULE Int64Test ------------------------------
(* Self-test of Int64.tla against a vector table computed with Go's int64.  *)
EXTENDS Int64, Json, IOUtils
Vecs == ndJsonDeserialize(IOEnv.VERIF_OBS)
N == Len(Vecs)
VARIABLE k
Init == k = 1
Next == \E c \in {2 * k, 2 * k + 1} : c <= N /\ k' = c
Got(v) == CASE v.op = "add" -> Add(v.a, v.b) [] v.op = "sub" -> Sub(v.a, v.b) [] v.op = "mul" -> Mul(v.a, v.b)
            [] v.op = "and" -> And64(v.a, v.b) [] v.op = "or" -> Or64(v.a, v.b) [] v.op = "xor" -> Xor64(v.a, v.b)
            [] v.op = "lt" -> Bool(Lt(v.a, v.b)) [] v.op = "le" -> Bool(Le(v.a, v.b))
            [] v.op = "div" -> DivT(v.a, v.b) [] v.op = "rem" -> RemT(v.a, v.b)
            [] v.op = "shl" -> Shl(v.a, v.n) [] v.op = "shr" -> Shr(v.a, v.n)
            [] v.op = "neg" -> Neg(v.a) [] v.op = "not" -> Not64(v.a)
Chk == k > N \/ Got(Vecs[k]) = Vecs[k].r \/ PrintT(<<"MISMATCH", k, Vecs[k].op, Vecs[k].a, Vecs[k].b, Vecs[k].n, Got(Vecs[k]), Vecs[k].r>>)
=============================================================================
