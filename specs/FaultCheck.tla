----------------------------- MODULE FaultCheck -----------------------------
EXTENDS Fault, Json, IOUtils
Recs == ndJsonDeserialize(IOEnv.VERIF_OBS)
N == Len(Recs)
VARIABLE k
Init == k = 1
Next == k < N /\ k' = k + 1
Chk == LET r == Recs[k] IN
       /\ Complete(r) \/ PrintT(<<"MISMATCH", k, -1>>)
       /\ \A i \in 1..Len(r.faults) : FaultOK(r.base, r.faults[i]) \/ PrintT(<<"MISMATCH", k, r.faults[i].k>>)
       /\ \A i \in 1..Len(r.inner) : InnerOK(r.base, r.faults[r.inner[i].k + 1], r.inner[i]) \/ PrintT(<<"MISMATCH", k, r.inner[i].k>>)
=============================================================================
