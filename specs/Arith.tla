-------------------------------- MODULE Arith --------------------------------
(***************************************************************************)
(* Arithmetic expansion (XCU 2.6.4: the C expression semantics on signed    *)
(* 64-bit integers with two's-complement wrap-around) -- reference          *)
(* evaluator for C11, on top of Int64.tla.                                  *)
(*                                                                          *)
(* Expression trees:                                                        *)
(*   [k "num", t text, v value, bad malformed]      constant                *)
(*   [k "var", n name]                                                      *)
(*   [k "un",  op, a]                 + - ~ !                               *)
(*   [k "bin", op, a, b]              * / % + - << >> < > <= >= == != & ^ | *)
(*   [k "and", a, b]  [k "or", a, b]  && ||  (short circuit)                *)
(*   [k "tern", c, a, b]              ?:                                    *)
(*   [k "asg", op, n, a]              = *= /= %= += -= <<= >>= &= ^= |=     *)
(*   [k "inc", op, n]                 ++x x++ --x x--                       *)
(*   [k "nolv", op, a, b]             an assignment to something that is    *)
(*                                    not an lvalue                         *)
(* A store maps the variable names to [kind, v]: unset, empty, num, bad.    *)
(* Eval(e, st, eager) = [v, st, f (fault), u (undefined by C)]              *)
(* eager = FALSE: the C semantics (EvalC, the property); eager = TRUE: the   *)
(* named deviation of the implementation (EvalE, known finding).            *)
(***************************************************************************)
EXTENDS Int64, FiniteSets

Num(t, v)   == [k |-> "num", t |-> t, v |-> v, bad |-> FALSE]
BadNum(t)   == [k |-> "num", t |-> t, v |-> Zero, bad |-> TRUE]
Var(n)      == [k |-> "var", n |-> n]
Un(op, a)   == [k |-> "un", op |-> op, a |-> a]
Bin(op, a, b) == [k |-> "bin", op |-> op, a |-> a, b |-> b]
LAnd(a, b)  == [k |-> "and", a |-> a, b |-> b]
LOr(a, b)   == [k |-> "or", a |-> a, b |-> b]
Tern(c, a, b) == [k |-> "tern", c |-> c, a |-> a, b |-> b]
Asg(op, n, a) == [k |-> "asg", op |-> op, n |-> n, a |-> a]
Inc(op, n)  == [k |-> "inc", op |-> op, n |-> n]
NoLv(op, a, b) == [k |-> "nolv", op |-> op, a |-> a, b |-> b]

R(v, st, f, u) == [v |-> v, st |-> st, f |-> f, u |-> u]

(* reading a variable: unset and empty read as 0, a non-numeric value is a fault *)
Read(st, n) == LET x == st[n] IN
               CASE x.kind = "num" -> [v |-> x.v, f |-> FALSE]
                 [] x.kind = "bad" -> [v |-> Zero, f |-> TRUE]
                 [] OTHER          -> [v |-> Zero, f |-> FALSE]

Assign(st, n, v) == [st EXCEPT ![n] = [kind |-> "num", v |-> v]]

(* a shift count is usable when 0 <= count < 64; negative: fault; >= 64: undefined in C *)
ShiftCount(b) == IF IsNeg(b) THEN "neg" ELSE IF IsSmall(b) /\ ToInt(b) < 64 THEN "ok" ELSE "big"

(* binary operator on values: [v, f, u] *)
Calc(op, a, b) ==
    CASE op = "*"  -> [v |-> Mul(a, b), f |-> FALSE, u |-> FALSE]
      [] op = "+"  -> [v |-> Add(a, b), f |-> FALSE, u |-> FALSE]
      [] op = "-"  -> [v |-> Sub(a, b), f |-> FALSE, u |-> FALSE]
      [] op \in {"/", "%"} ->
           IF b = Zero THEN [v |-> Zero, f |-> TRUE, u |-> FALSE]
           ELSE IF a = MinI /\ b = MinusOne THEN [v |-> Zero, f |-> FALSE, u |-> TRUE]
           ELSE [v |-> IF op = "/" THEN DivT(a, b) ELSE RemT(a, b), f |-> FALSE, u |-> FALSE]
      [] op \in {"<<", ">>"} ->
           LET c == ShiftCount(b) IN
           IF c = "neg" THEN [v |-> Zero, f |-> TRUE, u |-> FALSE]
           ELSE IF c = "big" THEN [v |-> Zero, f |-> FALSE, u |-> TRUE]
           ELSE [v |-> IF op = "<<" THEN Shl(a, ToInt(b)) ELSE Shr(a, ToInt(b)), f |-> FALSE, u |-> FALSE]
      [] op = "<"  -> [v |-> Bool(Lt(a, b)), f |-> FALSE, u |-> FALSE]
      [] op = ">"  -> [v |-> Bool(Lt(b, a)), f |-> FALSE, u |-> FALSE]
      [] op = "<=" -> [v |-> Bool(Le(a, b)), f |-> FALSE, u |-> FALSE]
      [] op = ">=" -> [v |-> Bool(Le(b, a)), f |-> FALSE, u |-> FALSE]
      [] op = "==" -> [v |-> Bool(a = b), f |-> FALSE, u |-> FALSE]
      [] op = "!=" -> [v |-> Bool(a # b), f |-> FALSE, u |-> FALSE]
      [] op = "&"  -> [v |-> And64(a, b), f |-> FALSE, u |-> FALSE]
      [] op = "^"  -> [v |-> Xor64(a, b), f |-> FALSE, u |-> FALSE]
      [] op = "|"  -> [v |-> Or64(a, b), f |-> FALSE, u |-> FALSE]

(* "+=" -> "+" *)
BaseOp(op) == CASE op = "*=" -> "*" [] op = "/=" -> "/" [] op = "%=" -> "%" [] op = "+=" -> "+" [] op = "-=" -> "-"
                [] op = "<<=" -> "<<" [] op = ">>=" -> ">>" [] op = "&=" -> "&" [] op = "^=" -> "^" [] OTHER -> "|"

(***************************************************************************)
(* EvalC: the C semantics (the property).                                   *)
(***************************************************************************)
RECURSIVE EvalC(_, _)
EvalC(e, st) ==
    CASE e.k = "num" -> R(e.v, st, e.bad, FALSE)
      [] e.k = "var" -> LET x == Read(st, e.n) IN R(x.v, st, x.f, FALSE)
      [] e.k = "un"  ->
           LET a == TLCEval(EvalC(e.a, st)) IN
           R(CASE e.op = "+" -> a.v [] e.op = "-" -> Neg(a.v) [] e.op = "~" -> Not64(a.v) [] OTHER -> Bool(a.v = Zero), a.st, a.f, a.u)
      [] e.k = "bin" ->
           LET a == TLCEval(EvalC(e.a, st))
               b == TLCEval(EvalC(e.b, a.st))
           IN  IF a.f THEN R(Zero, a.st, TRUE, a.u \/ b.u)                 \* nothing is assigned after the first fault
               ELSE IF b.f THEN R(Zero, b.st, TRUE, a.u \/ b.u)
               ELSE LET c == TLCEval(Calc(e.op, a.v, b.v)) IN R(c.v, b.st, c.f, a.u \/ b.u \/ c.u)
      [] e.k \in {"and", "or"} ->
           LET a == TLCEval(EvalC(e.a, st))
               decided == IF e.k = "and" THEN a.v = Zero ELSE a.v # Zero
           IN  IF a.f THEN R(Zero, a.st, TRUE, a.u)
               ELSE IF decided THEN R(Bool(e.k = "or"), a.st, FALSE, a.u)         \* the right operand is not evaluated
               ELSE LET b == TLCEval(EvalC(e.b, a.st)) IN
                    IF b.f THEN R(Zero, b.st, TRUE, a.u \/ b.u)
                    ELSE R(Bool(b.v # Zero), b.st, FALSE, a.u \/ b.u)
      [] e.k = "tern" ->
           LET c == TLCEval(EvalC(e.c, st)) IN
           IF c.f THEN R(Zero, c.st, TRUE, c.u)
           ELSE LET x == TLCEval(EvalC(IF c.v # Zero THEN e.a ELSE e.b, c.st)) IN R(x.v, x.st, x.f, c.u \/ x.u)
      [] e.k = "asg" ->
           LET a == TLCEval(EvalC(e.a, st)) IN
           IF a.f THEN R(Zero, a.st, TRUE, a.u)
           ELSE IF e.op = "=" THEN R(a.v, Assign(a.st, e.n, a.v), FALSE, a.u)
           ELSE LET x == Read(a.st, e.n) IN
                IF x.f THEN R(Zero, a.st, TRUE, a.u)
                ELSE LET c == TLCEval(Calc(BaseOp(e.op), x.v, a.v)) IN
                     IF c.f THEN R(Zero, a.st, TRUE, a.u \/ c.u)
                     ELSE R(c.v, Assign(a.st, e.n, c.v), FALSE, a.u \/ c.u)
      [] e.k = "inc" ->
           LET x == Read(st, e.n) IN
           IF x.f THEN R(Zero, st, TRUE, FALSE)
           ELSE LET nv == IF e.op \in {"++x", "x++"} THEN Add(x.v, One) ELSE Sub(x.v, One) IN
                R(IF e.op \in {"++x", "--x"} THEN nv ELSE x.v, Assign(st, e.n, nv), FALSE, FALSE)
      [] OTHER ->   \* assignment to a non-lvalue: a fault; nothing is assigned
           LET a == TLCEval(EvalC(e.a, st)) b == TLCEval(EvalC(e.b, IF a.f THEN st ELSE a.st)) IN
           R(Zero, IF a.f THEN a.st ELSE IF b.f THEN b.st ELSE b.st, TRUE, a.u \/ b.u)

(***************************************************************************)
(* EvalE: the named deviation of the implementation (known finding          *)
(* F-C11-eager-operands), precisely.  Values are computed inside the        *)
(* grammar actions of an LALR parser: every operand expression is evaluated *)
(* when it is reduced -- also the ones C skips -- and a plain variable       *)
(* operand (in any number of parentheses) is only looked up when the        *)
(* operator it belongs to is applied, i.e. after the side effects of the    *)
(* operands that follow it.  An unselected plain variable is never looked   *)
(* up.  For expressions without skipped operands whose operands do not       *)
(* modify a variable that is a plain operand of the same operator, EvalE    *)
(* and EvalC agree.                                                         *)
(***************************************************************************)
RECURSIVE EvalE(_, _)
IsVar(e) == e.k = "var"
Opd(e, st) == IF IsVar(e) THEN R(Zero, st, FALSE, FALSE) ELSE EvalE(e, st)           \* reduce the operand
Look(e, r, st) == IF IsVar(e) THEN LET x == Read(st, e.n) IN [v |-> x.v, f |-> x.f] ELSE [v |-> r.v, f |-> r.f]   \* its value when used
EvalE(e, st) ==
    CASE e.k = "num" -> R(e.v, st, e.bad, FALSE)
      [] e.k = "var" -> LET x == Read(st, e.n) IN R(x.v, st, x.f, FALSE)          \* the whole expression is a variable
      [] e.k = "un"  ->
           LET a == TLCEval(Opd(e.a, st)) va == TLCEval(Look(e.a, a, a.st)) IN
           R(CASE e.op = "+" -> va.v [] e.op = "-" -> Neg(va.v) [] e.op = "~" -> Not64(va.v) [] OTHER -> Bool(va.v = Zero), a.st, va.f, a.u)
      [] e.k = "bin" ->
           LET a == TLCEval(Opd(e.a, st)) IN
           IF a.f THEN R(Zero, a.st, TRUE, a.u)
           ELSE LET b == TLCEval(Opd(e.b, a.st)) IN
                IF b.f THEN R(Zero, b.st, TRUE, a.u \/ b.u)
                ELSE LET va == TLCEval(Look(e.a, a, b.st)) vb == TLCEval(Look(e.b, b, b.st)) IN
                     IF va.f \/ vb.f THEN R(Zero, b.st, TRUE, a.u \/ b.u)
                     ELSE LET c == TLCEval(Calc(e.op, va.v, vb.v)) IN R(c.v, b.st, c.f, a.u \/ b.u \/ c.u)
      [] e.k \in {"and", "or"} ->
           LET a == TLCEval(Opd(e.a, st)) IN
           IF a.f THEN R(Zero, a.st, TRUE, a.u)
           ELSE LET b == TLCEval(Opd(e.b, a.st)) IN                                  \* evaluated whatever the left operand is
                IF b.f THEN R(Zero, b.st, TRUE, a.u \/ b.u)
                ELSE LET va == TLCEval(Look(e.a, a, b.st)) IN
                     IF va.f THEN R(Zero, b.st, TRUE, a.u \/ b.u)
                     ELSE IF (IF e.k = "and" THEN va.v = Zero ELSE va.v # Zero) THEN R(Bool(e.k = "or"), b.st, FALSE, a.u \/ b.u)
                     ELSE LET vb == TLCEval(Look(e.b, b, b.st)) IN
                          IF vb.f THEN R(Zero, b.st, TRUE, a.u \/ b.u) ELSE R(Bool(vb.v # Zero), b.st, FALSE, a.u \/ b.u)
      [] e.k = "tern" ->
           LET c == TLCEval(Opd(e.c, st)) IN
           IF c.f THEN R(Zero, c.st, TRUE, c.u)
           ELSE LET a == TLCEval(Opd(e.a, c.st)) IN
                IF a.f THEN R(Zero, a.st, TRUE, c.u \/ a.u)
                ELSE LET b == TLCEval(Opd(e.b, a.st)) IN
                     IF b.f THEN R(Zero, b.st, TRUE, c.u \/ a.u \/ b.u)
                     ELSE LET vc == TLCEval(Look(e.c, c, b.st)) IN
                          IF vc.f THEN R(Zero, b.st, TRUE, c.u \/ a.u \/ b.u)
                          ELSE LET x == TLCEval(IF vc.v # Zero THEN Look(e.a, a, b.st) ELSE Look(e.b, b, b.st)) IN
                               R(IF x.f THEN Zero ELSE x.v, b.st, x.f, c.u \/ a.u \/ b.u)
      [] e.k = "asg" ->
           LET a == TLCEval(Opd(e.a, st)) IN
           IF a.f THEN R(Zero, a.st, TRUE, a.u)
           ELSE LET va == TLCEval(Look(e.a, a, a.st)) IN
                IF va.f THEN R(Zero, a.st, TRUE, a.u)
                ELSE IF e.op = "=" THEN R(va.v, Assign(a.st, e.n, va.v), FALSE, a.u)
                ELSE LET x == Read(a.st, e.n) IN
                     IF x.f THEN R(Zero, a.st, TRUE, a.u)
                     ELSE LET c == TLCEval(Calc(BaseOp(e.op), x.v, va.v)) IN
                          IF c.f THEN R(Zero, a.st, TRUE, a.u \/ c.u)
                          ELSE R(c.v, Assign(a.st, e.n, c.v), FALSE, a.u \/ c.u)
      [] e.k = "inc" ->
           LET x == Read(st, e.n) IN
           IF x.f THEN R(Zero, st, TRUE, FALSE)
           ELSE LET nv == IF e.op \in {"++x", "x++"} THEN Add(x.v, One) ELSE Sub(x.v, One) IN
                R(IF e.op \in {"++x", "--x"} THEN nv ELSE x.v, Assign(st, e.n, nv), FALSE, FALSE)
      [] OTHER ->
           LET a == TLCEval(Opd(e.a, st)) b == TLCEval(Opd(e.b, IF a.f THEN st ELSE a.st)) IN
           R(Zero, IF a.f THEN a.st ELSE b.st, TRUE, a.u \/ b.u)

Eval(e, st, eager) == IF eager THEN EvalE(e, st) ELSE EvalC(e, st)

(***************************************************************************)
(* C leaves the value undefined when a variable is modified and otherwise   *)
(* accessed without an intervening sequence point; conservatively: within   *)
(* the whole expression.                                                    *)
(***************************************************************************)
RECURSIVE Reads(_), Writes(_)
Reads(e) == CASE e.k = "num" -> <<>> [] e.k = "var" -> <<e.n>> [] e.k = "un" -> Reads(e.a)
              [] e.k \in {"bin", "and", "or", "nolv"} -> Reads(e.a) \o Reads(e.b)
              [] e.k = "tern" -> Reads(e.c) \o Reads(e.a) \o Reads(e.b)
              [] e.k = "asg" -> Reads(e.a) [] OTHER -> <<>>
Writes(e) == CASE e.k \in {"num", "var"} -> <<>> [] e.k = "un" -> Writes(e.a)
               [] e.k \in {"bin", "and", "or", "nolv"} -> Writes(e.a) \o Writes(e.b)
               [] e.k = "tern" -> Writes(e.c) \o Writes(e.a) \o Writes(e.b)
               [] e.k = "asg" -> <<e.n>> \o Writes(e.a) [] OTHER -> <<e.n>>
Count(s, n) == Cardinality({i \in 1..Len(s) : s[i] = n})

(* Sequencing (C11 6.5): [se, rd, ub] = the variables with a side effect, the variables whose value is read, and  *)
(* whether two unsequenced accesses conflict.  && || ?: are sequence points; the operands of every other binary   *)
(* operator are unsequenced; an assignment's store is sequenced after the evaluation of its right side (so        *)
(* x = x + 1 is defined, x = x++ is not).                                                                         *)
RECURSIVE Sq(_)
Sq(e) ==
    CASE e.k = "num" -> [se |-> {}, rd |-> {}, ub |-> FALSE]
      [] e.k = "var" -> [se |-> {}, rd |-> {e.n}, ub |-> FALSE]
      [] e.k = "un"  -> Sq(e.a)
      [] e.k \in {"bin", "nolv"} ->
           LET a == Sq(e.a) b == Sq(e.b) IN
           [se |-> a.se \cup b.se, rd |-> a.rd \cup b.rd,
            ub |-> a.ub \/ b.ub \/ a.se \cap (b.se \cup b.rd) # {} \/ b.se \cap (a.se \cup a.rd) # {}]
      [] e.k \in {"and", "or"} ->
           LET a == Sq(e.a) b == Sq(e.b) IN [se |-> a.se \cup b.se, rd |-> a.rd \cup b.rd, ub |-> a.ub \/ b.ub]
      [] e.k = "tern" ->
           LET c == Sq(e.c) a == Sq(e.a) b == Sq(e.b) IN
           [se |-> c.se \cup a.se \cup b.se, rd |-> c.rd \cup a.rd \cup b.rd, ub |-> c.ub \/ a.ub \/ b.ub]
      [] e.k = "asg" ->
           LET a == Sq(e.a) IN
           [se |-> a.se \cup {e.n}, rd |-> a.rd \cup (IF e.op = "=" THEN {} ELSE {e.n}), ub |-> a.ub \/ e.n \in a.se]
      [] OTHER -> [se |-> {e.n}, rd |-> {e.n}, ub |-> FALSE]      \* ++ --
Defined(e) == ~Sq(e).ub

(***************************************************************************)
(* Rendering with the minimal parentheses C's precedence and associativity  *)
(* require (style "min") or with every operand parenthesised ("full").      *)
(***************************************************************************)
Prec(e) == CASE e.k \in {"num", "var", "inc"} -> 15
             [] e.k = "un" -> 14
             [] e.k = "bin" -> (CASE e.op \in {"*", "/", "%"} -> 13 [] e.op \in {"+", "-"} -> 12 [] e.op \in {"<<", ">>"} -> 11
                                  [] e.op \in {"<", ">", "<=", ">="} -> 10 [] e.op \in {"==", "!="} -> 9
                                  [] e.op = "&" -> 8 [] e.op = "^" -> 7 [] OTHER -> 6)
             [] e.k = "and" -> 5 [] e.k = "or" -> 4 [] e.k = "tern" -> 3 [] OTHER -> 2

(* the same text without blanks, except where two tokens would fuse (+ +, - -, & &, | |, < <, > >, = =, ! =, operator =) *)
OpChar(c) == c \in {"+", "-", "&", "|", "<", ">", "=", "!", "*", "/", "%", "^", "~", "?", ":"}
RECURSIVE TightFrom(_, _)
TightFrom(t, i) ==
    IF i > Len(t) THEN ""
    ELSE IF t[i] = " " /\ i > 1 /\ i < Len(t) /\ ~(OpChar(t[i - 1]) /\ OpChar(t[i + 1])) THEN TightFrom(t, i + 1)
    ELSE t[i] \o TightFrom(t, i + 1)
Chars(str) == [i \in 1..Len(str) |-> SubSeq(str, i, i)]
Tight(str) == TightFrom(TLCEval(Chars(str)), 1)

RECURSIVE Text(_, _)
LV(n, full) == IF full THEN "(" \o n \o ")" ELSE n
Paren(e, need, full) == IF need \/ (full /\ e.k # "num") THEN "(" \o Text(e, full) \o ")" ELSE Text(e, full)
Text(e, full) ==
    CASE e.k = "num" -> e.t
      [] e.k = "var" -> e.n
      [] e.k = "un"  -> e.op \o Paren(e.a, e.a.k \notin {"num", "var"}, full)      \* "- --y" must not become "---y"
      [] e.k = "bin" -> Paren(e.a, Prec(e.a) < Prec(e), full) \o " " \o e.op \o " " \o Paren(e.b, Prec(e.b) <= Prec(e), full)
      [] e.k = "and" -> Paren(e.a, Prec(e.a) < 5, full) \o " && " \o Paren(e.b, Prec(e.b) <= 5, full)
      [] e.k = "or"  -> Paren(e.a, Prec(e.a) < 4, full) \o " || " \o Paren(e.b, Prec(e.b) <= 4, full)
      [] e.k = "tern" -> Paren(e.c, Prec(e.c) <= 3, full) \o " ? " \o Paren(e.a, FALSE, full) \o " : " \o Paren(e.b, Prec(e.b) < 3, full)
      \* a parenthesised variable is still an lvalue
      [] e.k = "asg" -> LV(e.n, full) \o " " \o e.op \o " " \o Paren(e.a, FALSE, full)
      [] e.k = "inc" -> (CASE e.op = "++x" -> "++" \o LV(e.n, full) [] e.op = "--x" -> "--" \o LV(e.n, full)
                           [] e.op = "x++" -> LV(e.n, full) \o "++" [] OTHER -> LV(e.n, full) \o "--")
      [] OTHER -> Paren(e.a, Prec(e.a) <= 2, full) \o " " \o e.op \o " " \o Paren(e.b, FALSE, full)
=============================================================================
