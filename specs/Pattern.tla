------------------------------ MODULE Pattern ------------------------------
(***************************************************************************)
(* Shell pattern matching notation (XCU 2.13, XBD 9.3.5): reference        *)
(* semantics for pattern.Match of hattya/go.sh.  Property C12 (and the      *)
(* matcher reused by C15/C16).                                              *)
(*                                                                          *)
(* A pattern and a subject are sequences of SYMBOLS; a symbol is a string   *)
(* that names exactly one character (the driver maps "NL" to newline,       *)
(* "U1"/"U2" to multi-byte characters, everything else to itself).          *)
(***************************************************************************)
EXTENDS Integers, Sequences, FiniteSets, SequencesExt, FiniteSetsExt, TLC

CodeTab ==
    ("NL" :> 10) @@ ("TAB" :> 9) @@ ("SP" :> 32) @@ ("!" :> 33) @@ ("DQ" :> 34) @@ ("#" :> 35) @@ ("$" :> 36)
 @@ ("%" :> 37) @@ ("&" :> 38) @@ ("'" :> 39) @@ ("(" :> 40) @@ (")" :> 41) @@ ("*" :> 42) @@ ("+" :> 43)
 @@ ("," :> 44) @@ ("-" :> 45) @@ ("." :> 46) @@ ("/" :> 47) @@ ("0" :> 48) @@ ("1" :> 49) @@ ("9" :> 57)
 @@ (":" :> 58) @@ (";" :> 59) @@ ("<" :> 60) @@ ("=" :> 61) @@ (">" :> 62) @@ ("?" :> 63) @@ ("@" :> 64)
 @@ ("A" :> 65) @@ ("B" :> 66) @@ ("Z" :> 90) @@ ("[" :> 91) @@ ("\\" :> 92) @@ ("]" :> 93) @@ ("^" :> 94)
 @@ ("_" :> 95) @@ ("`" :> 96) @@ ("a" :> 97) @@ ("b" :> 98) @@ ("c" :> 99) @@ ("d" :> 100) @@ ("z" :> 122)
 @@ ("{" :> 123) @@ ("|" :> 124) @@ ("}" :> 125) @@ ("~" :> 126) @@ ("U1" :> 233) @@ ("U2" :> 12354) @@ ("UFFFD" :> 65533)

Code(c) == CodeTab[c]
Symbols == DOMAIN CodeTab

(***************************************************************************)
(* Items of a parsed pattern.                                               *)
(***************************************************************************)
AnyC      == [t |-> "any"]
StarC      == [t |-> "star"]
Chr(c)    == [t |-> "chr", c |-> c]
SetOf(neg, mem, rng, cls) == [t |-> "set", neg |-> neg, mem |-> mem, rng |-> rng, cls |-> cls]

(***************************************************************************)
(* Character classes (XBD 9.3.5): "[:alpha:]" etc. are single SYMBOLS of    *)
(* the pattern alphabet (the driver writes the text).  Inside a bracket     *)
(* expression such a symbol is a class (ASCII, as in the C locale); outside *)
(* it is the bracket expression made of its own characters.                 *)
(***************************************************************************)
ClassSyms == {"[:alpha:]", "[:digit:]", "[:space:]", "[:punct:]", "[:upper:]", "[:lower:]", "[:alnum:]"}
ClassChars(k) == CASE k = "[:alpha:]" -> {":", "a", "l", "p", "h"} [] k = "[:digit:]" -> {":", "d", "i", "g", "t"}
                   [] k = "[:space:]" -> {":", "s", "p", "a", "c", "e"} [] k = "[:punct:]" -> {":", "p", "u", "n", "c", "t"}
                   [] k = "[:upper:]" -> {":", "u", "p", "e", "r"} [] k = "[:lower:]" -> {":", "l", "o", "w", "e", "r"}
                   [] OTHER -> {":", "a", "l", "n", "u", "m"}
InClass(k, c) == LET n == Code(c)
                     up == n >= 65 /\ n <= 90   lo == n >= 97 /\ n <= 122   dg == n >= 48 /\ n <= 57 IN
                 CASE k = "[:alpha:]" -> up \/ lo [] k = "[:digit:]" -> dg [] k = "[:alnum:]" -> up \/ lo \/ dg
                   [] k = "[:upper:]" -> up [] k = "[:lower:]" -> lo
                   [] k = "[:space:]" -> n \in {9, 10, 11, 12, 13, 32}
                   [] OTHER -> (n >= 33 /\ n <= 47) \/ (n >= 58 /\ n <= 64) \/ (n >= 91 /\ n <= 96) \/ (n >= 123 /\ n <= 126)

(* status lattice: ok < either, mal < unspec; either \/ mal = mal *)
JoinSt(a, b) ==
    CASE a = "unspec" \/ b = "unspec" -> "unspec"
      [] a = "mal" \/ b = "mal"       -> "mal"
      [] a = "either" \/ b = "either" -> "either"
      [] OTHER                        -> "ok"

(***************************************************************************)
(* Bracket expression scanner.  p[j] is the next unread symbol, `first` is  *)
(* TRUE while a "]" would still be an ordinary member.  Result:             *)
(*   [term |-> FALSE]                      no closing "]": not a bracket    *)
(*   [term |-> TRUE, end, mem, rng, st]    closing "]" at index end         *)
(* A backslash quotes the next symbol (XCU 2.13.1); "x-y" with y # "]" is   *)
(* a range; a range whose end points are out of order is malformed.         *)
(* "[." "[=" "[:" inside a bracket expression are outside the modelled      *)
(* fragment (status unspec).                                                *)
(***************************************************************************)
RECURSIVE BrScan(_, _, _, _, _, _, _)
BrScan(p, j, first, mem, rng, cls, st) ==
    IF j > Len(p) THEN [term |-> FALSE]
    ELSE LET c == p[j] IN
      IF c = "]" /\ ~first THEN [term |-> TRUE, end |-> j, mem |-> mem, rng |-> rng, cls |-> cls, st |-> st]
      ELSE IF c = "[" /\ j < Len(p) /\ p[j + 1] \in {".", "=", ":"} THEN
           BrScan(p, j + 1, FALSE, mem \cup {"["}, rng, cls, "unspec")
      ELSE IF c \in ClassSyms THEN       \* a class; as the end point of a range it is outside the modelled fragment
           BrScan(p, j + 1, FALSE, mem, rng, cls \cup {c},
                  IF j + 2 <= Len(p) /\ p[j + 1] = "-" /\ p[j + 2] # "]" THEN "unspec" ELSE st)
      ELSE IF c = "\\" /\ j < Len(p) /\ p[j + 1] \in ClassSyms THEN BrScan(p, j + 2, FALSE, mem, rng, cls, "unspec")
      ELSE IF c = "\\" /\ j = Len(p) THEN [term |-> FALSE]
      ELSE LET lo == IF c = "\\" THEN p[j + 1] ELSE c
               n  == IF c = "\\" THEN j + 2 ELSE j + 1      \* index after lo
           IN IF n + 1 <= Len(p) /\ p[n] = "-" /\ p[n + 1] # "]"
              THEN \* range lo - hi
                   IF p[n + 1] = "\\" /\ n + 1 = Len(p) THEN [term |-> FALSE]
                   ELSE LET hi == IF p[n + 1] = "\\" THEN p[n + 2] ELSE p[n + 1]
                            m  == IF p[n + 1] = "\\" THEN n + 3 ELSE n + 2
                        IN IF (p[n + 1] = "[" /\ m <= Len(p) /\ p[m] \in {".", "=", ":"}) \/ hi \in ClassSyms
                           THEN BrScan(p, m, FALSE, mem, rng, cls, "unspec")
                           ELSE BrScan(p, m, FALSE, mem, rng \cup {<<Code(lo), Code(hi)>>}, cls,
                                       IF Code(lo) > Code(hi) THEN JoinSt(st, "mal") ELSE st)
              ELSE BrScan(p, n, FALSE, mem \cup {lo}, rng, cls, st)

(***************************************************************************)
(* Parse(p) = [st, items].  An unterminated "[" and a trailing backslash    *)
(* are given their literal reading with status "either".                   *)
(***************************************************************************)
RECURSIVE ParseFrom(_, _)
ParseFrom(p, i) ==
    IF i > Len(p) THEN [st |-> "ok", items |-> <<>>]
    ELSE LET c == p[i]
             PCons(st, it, rest) == [st |-> JoinSt(st, rest.st), items |-> <<it>> \o rest.items]
         IN CASE c = "?" -> PCons("ok", AnyC, ParseFrom(p, i + 1))
              [] c = "*" -> PCons("ok", StarC, ParseFrom(p, i + 1))
              [] c = "\\" -> IF i = Len(p) THEN [st |-> "either", items |-> <<Chr("\\")>>]
                             ELSE IF p[i + 1] \in ClassSyms THEN PCons("unspec", Chr("["), ParseFrom(p, i + 2))
                             ELSE PCons("ok", Chr(p[i + 1]), ParseFrom(p, i + 2))
              [] c \in ClassSyms -> PCons("ok", SetOf(FALSE, ClassChars(c), {}, {}), ParseFrom(p, i + 1))    \* outside a bracket: its own characters
              [] c = "[" ->
                   LET neg == i < Len(p) /\ p[i + 1] \in {"!", "^"}
                       j0  == IF neg THEN i + 2 ELSE i + 1
                       b   == BrScan(p, j0, TRUE, {}, {}, {}, "ok")
                   IN IF b.term
                      THEN PCons(b.st, SetOf(neg, b.mem, b.rng, b.cls), ParseFrom(p, b.end + 1))
                      \* not terminated; if a class symbol follows, ITS text holds a "]" that ends the bracket in the real
                      \* pattern: the symbol abstraction does not apply (unspec)
                      ELSE PCons(IF \E k \in j0..Len(p) : p[k] \in ClassSyms THEN "unspec" ELSE "either", Chr("["), ParseFrom(p, i + 1))
              [] OTHER -> PCons("ok", Chr(c), ParseFrom(p, i + 1))

Parse(p) == ParseFrom(p, 1)

(***************************************************************************)
(* Matching: the items match the WHOLE subject.                             *)
(***************************************************************************)
InSet(it, c) ==
    LET hit == c \in it.mem \/ (\E r \in it.rng : r[1] <= Code(c) /\ Code(c) <= r[2]) \/ (\E k \in it.cls : InClass(k, c))
    IN  IF it.neg THEN ~hit ELSE hit

One(it, c) == CASE it.t = "any" -> TRUE
                [] it.t = "chr" -> it.c = c
                [] it.t = "set" -> InSet(it, c)
                [] OTHER        -> FALSE

RECURSIVE M(_, _, _, _)
M(its, i, s, j) ==
    IF i > Len(its) THEN j > Len(s)
    ELSE IF its[i].t = "star" THEN \E k \in j..(Len(s) + 1) : M(its, i + 1, s, k)
    ELSE j <= Len(s) /\ One(its[i], s[j]) /\ M(its, i + 1, s, j + 1)

Matches(its, s) == M(its, 1, s, 1)

(***************************************************************************)
(* The four removal modes.  Result: length of the matched portion, or -1    *)
(* (NoMatch).  `itss` is a set of item sequences (several patterns match    *)
(* exactly when one of them does).                                          *)
(***************************************************************************)
Prefix(s, k) == SubSeq(s, 1, k)
Suffix(s, k) == SubSeq(s, Len(s) - k + 1, Len(s))

PrefixKs(itss, s) == {k \in 0..Len(s) : \E its \in itss : Matches(its, Prefix(s, k))}
SuffixKs(itss, s) == {k \in 0..Len(s) : \E its \in itss : Matches(its, Suffix(s, k))}

Pick(ks, smallest) == IF ks = {} THEN -1 ELSE IF smallest THEN Min(ks) ELSE Max(ks)

Modes == <<"ps", "pl", "ss", "sl">>     \* prefix/suffix x smallest/largest

Res(itss, s, mode) ==
    CASE mode = "ps" -> Pick(PrefixKs(itss, s), TRUE)
      [] mode = "pl" -> Pick(PrefixKs(itss, s), FALSE)
      [] mode = "ss" -> Pick(SuffixKs(itss, s), TRUE)
      [] mode = "sl" -> Pick(SuffixKs(itss, s), FALSE)

(* all four at once, sharing the k-sets *)
Res4(itss, s) ==
    LET pk == PrefixKs(itss, s)
        sk == SuffixKs(itss, s)
    IN  <<Pick(pk, TRUE), Pick(pk, FALSE), Pick(sk, TRUE), Pick(sk, FALSE)>>

(***************************************************************************)
(* Ordered enumeration of all sequences over an ordered alphabet.           *)
(***************************************************************************)
RECURSIVE SeqsOfLen(_, _)
SeqsOfLen(A, n) ==
    IF n = 0 THEN << <<>> >>
    ELSE LET prev == SeqsOfLen(A, n - 1)
         IN  FlattenSeq([i \in 1..Len(prev) |-> [j \in 1..Len(A) |-> Append(prev[i], A[j])]])

RECURSIVE SeqsUpTo(_, _)
SeqsUpTo(A, n) == IF n = 0 THEN SeqsOfLen(A, 0) ELSE SeqsUpTo(A, n - 1) \o SeqsOfLen(A, n)

(***************************************************************************)
(* The property predicate for one observation record.                      *)
(*   rec.st   status of the pattern (ok / mal / either / unspec)            *)
(*   rec.exp  expected result vectors, rec.obs observed ones: per mode a    *)
(*            sequence over the subject list; -1 NoMatch, -2 error,         *)
(*            -3 a returned string that is not the required prefix/suffix,  *)
(*            -4 panic                                                      *)
(***************************************************************************)
VecOK(st, e, o) ==
    /\ Len(e) = Len(o)
    /\ CASE st = "ok"     -> o = e
         [] st = "mal"    -> \A i \in 1..Len(e) : o[i] = -2
         [] st = "either" -> o = e \/ \A i \in 1..Len(e) : o[i] = -2 \/ o[i] = e[i]
         [] OTHER         -> \A i \in 1..Len(e) : o[i] # -4 /\ o[i] # -3

Holds(rec) ==
    /\ VecOK(rec.st, rec.exp.ps, rec.obs.ps)
    /\ VecOK(rec.st, rec.exp.pl, rec.obs.pl)
    /\ VecOK(rec.st, rec.exp.ss, rec.obs.ss)
    /\ VecOK(rec.st, rec.exp.sl, rec.obs.sl)
=============================================================================
