----------------------------- MODULE StoreCheck ------------------------------
(* Validation of real ExecEnv histories against Store.tla: the model is     *)
(* re-run along the recorded operations and compared with the recorded      *)
(* result, snapshot and Walk after every step.                              *)
EXTENDS Store, Json, IOUtils
Recs == ndJsonDeserialize(IOEnv.VERIF_OBS)
N == Len(Recs)
VARIABLE k
Init == k = 1
Next == k < N /\ k' = k + 1

RECURSIVE Replay(_, _, _, _)
\* index of the first step whose observation differs from the model (0: none)
Replay(rec, i, vars, nounset) ==
    IF i > Len(rec.steps) THEN 0
    ELSE LET s == rec.steps[i]
             d == Do(vars, [op |-> s.op, n |-> s.n, v |-> s.v], nounset)
             snap == Snapshot(d.vars, nounset)
         IN  IF /\ s.obs.res = d.res
                /\ \A n \in Universe : s.obs.snap[n] = snap[n]
                /\ {<<s.obs.walk[j][1], s.obs.walk[j][2]>> : j \in 1..Len(s.obs.walk)} = WalkSet(d.vars)
                /\ Len(s.obs.walk) = Cardinality(DOMAIN d.vars)
                /\ s.obs.intact            \* Args, Opts, Aliases and the AST were not modified
                /\ s.obs.panic = ""
             THEN Replay(rec, i + 1, d.vars, nounset)
             ELSE i

Chk == LET b == Replay(Recs[k], 1, <<>>, Recs[k].nounset) IN b = 0 \/ PrintT(<<"MISMATCH", k, b>>)
=============================================================================
