----------------------------- MODULE ProtoModel ------------------------------
(***************************************************************************)
(* Proto.tla driven by abstract scripts: TLC explores ALL interleavings of  *)
(* the lexer and parser goroutines for ALL scripts up to MaxLen tokens.     *)
(*                                                                          *)
(* A script is a sequence of token kinds; a kind fixes what the lexer does  *)
(* while scanning the token and what the parser does when it receives it:   *)
(*   ok      plain token                                                    *)
(*   le      the lexer detects an error while scanning it (error(), exit)   *)
(*   pe      the parser reports a syntax error when it receives it          *)
(*   ae      a grammar action reports an error and parsing goes on          *)
(*           (arithmetic evaluator)                                         *)
(*   hd      here-document delimiter word: announced (inc) by the lexer,    *)
(*           pushed by the parser when io_here is reduced                   *)
(*   nl      newline that makes the lexer read the pending here-documents   *)
(*   flt     the source starts failing while this token is scanned          *)
(*   la      the lexer scans one token ahead, detects an error there, and   *)
(*           then reaches emit() for the word it had scanned before         *)
(*   nok/npe/nle   a word with a command substitution whose nested script   *)
(*           is <<ok>>, <<pe>>, <<le>>                                      *)
(* After the last token the lexer sees EOF; Incomplete says whether the     *)
(* parser then reports "unexpected EOF".                                    *)
(***************************************************************************)
EXTENDS Proto

CONSTANTS MaxLen, Kinds

VARIABLES script,      \* script[l]: token kinds of lexer l
          incomplete,  \* the outermost script is an incomplete command
          lpos,        \* lpos[l]: index of the token lexer l is scanning
          lstep,       \* micro step of the lexer inside the token
          ptok,        \* ptok[l]: index of the token the parser of l received last
          pstep        \* micro step of the parser on that token

mvars == <<vars, script, incomplete, lpos, lstep, ptok, pstep>>

RECURSIVE SeqsUpTo(_, _)
SeqsUpTo(S, n) == IF n = 0 THEN {<<>>} ELSE SeqsUpTo(S, n - 1) \cup {Append(s, k) : s \in SeqsUpTo(S, n - 1), k \in S}

NestScript(k) == CASE k = "nok" -> <<"ok">> [] k = "npe" -> <<"pe">> [] k = "nle" -> <<"le">> [] OTHER -> <<>>
IsNest(k) == k \in {"nok", "npe", "nle"}

MInit == /\ Init
         /\ \E s \in SeqsUpTo(Kinds, MaxLen) :
               /\ Cardinality({j \in 1..Len(s) : IsNest(s[j])}) < MaxL        \* one lexer per command substitution
               /\ script = [l \in Lexers |-> IF l = 1 THEN s ELSE <<>>]
         /\ incomplete \in BOOLEAN
         /\ lpos = [l \in Lexers |-> 1] /\ lstep = [l \in Lexers |-> 0]
         /\ ptok = [l \in Lexers |-> 0] /\ pstep = [l \in Lexers |-> 0]

Kind(l) == IF lpos[l] <= Len(script[l]) THEN script[l][lpos[l]] ELSE "eof"
Keep == UNCHANGED <<script, incomplete, lpos, lstep, ptok, pstep>>
StepL(l) == lstep' = [lstep EXCEPT ![l] = @ + 1] /\ UNCHANGED <<script, incomplete, lpos, ptok, pstep>>
StepP(l) == pstep' = [pstep EXCEPT ![l] = @ + 1] /\ UNCHANGED <<script, incomplete, lpos, lstep, ptok>>

(* ------------------------------------------------------------------ caller *)
Call == L_New(1, 0) /\ Keep

(* ------------------------------------------------------------------- lexer *)
Lexer(l) ==
    \/ L_Start(l) /\ Keep
    \/ L_Wait(l) /\ Keep
    \/ L_Go(l) /\ lstep' = [lstep EXCEPT ![l] = 0] /\ UNCHANGED <<script, incomplete, lpos, ptok, pstep>>
    \/ L_RunAhead(l) /\ lstep' = [lstep EXCEPT ![l] = 0] /\ UNCHANGED <<script, incomplete, lpos, ptok, pstep>>
    \/ L_Bail(l) /\ Keep
    \/ L_Exit(l) /\ lpc[l] = "bailing" /\ Keep
    \* scanning the current token: micro steps in program order
    \/ /\ lpc[l] = "scanning"
       /\ LET k == Kind(l) s == lstep[l] IN
          CASE k = "eof" ->
                 \/ s = 0 /\ hq[l] > 0 /\ err[l] = NoErr /\ L_Error(l, 100 + lpos[l], FALSE) /\ StepL(l)   \* unread here-document
                 \/ (s = 1 \/ ~(hq[l] > 0 /\ err[l] = NoErr)) /\ L_Exit(l) /\ Keep
            [] k = "flt" ->
                 \/ s = 0 /\ L_ReadFault(l) /\ StepL(l)
                 \/ s = 1 /\ L_Exit(l) /\ Keep
            [] k = "le" ->
                 \/ s = 0 /\ L_Read(l) /\ StepL(l)
                 \/ s = 1 /\ L_Error(l, lpos[l], FALSE) /\ StepL(l)
                 \/ s = 2 /\ L_Exit(l) /\ Keep
            [] k = "la" ->
                 \/ s = 0 /\ L_Read(l) /\ StepL(l)
                 \/ s = 1 /\ L_Error(l, lpos[l], FALSE) /\ StepL(l)
                 \/ s = 2 /\ L_Emit(l) /\ Keep
            [] k = "hd" ->
                 \/ s = 0 /\ L_Read(l) /\ StepL(l)
                 \/ s = 1 /\ L_HdInc(l) /\ StepL(l)
                 \/ s = 2 /\ L_Emit(l) /\ Keep
            [] k = "nl" ->
                 \/ s = 0 /\ L_Read(l) /\ StepL(l)
                 \/ s = 1 /\ hn[l] > 0 /\ hq[l] > 0 /\ L_HdGot(l) /\ Keep      \* pop and read the body
                 \/ s = 1 /\ hn[l] > 0 /\ hq[l] = 0 /\ L_HdWait(l) /\ Keep
                 \/ s = 1 /\ hn[l] = 0 /\ L_Emit(l) /\ Keep
            [] IsNest(k) ->
                 \/ s = 0 /\ L_Read(l) /\ StepL(l)
                 \/ /\ s = 1 /\ nlex + 1 \in Lexers /\ L_New(nlex + 1, l)
                    /\ script' = [script EXCEPT ![nlex + 1] = NestScript(k)]
                    /\ lstep' = [lstep EXCEPT ![l] = 2] /\ UNCHANGED <<incomplete, lpos, ptok, pstep>>
                 \* back from the nested parse (P_Joined put this lexer back to scanning)
                 \/ s = 2 /\ err[l] # NoErr /\ L_Exit(l) /\ Keep
                 \/ s = 2 /\ err[l] = NoErr /\ L_Emit(l) /\ Keep
            [] OTHER ->   \* ok, pe, ae
                 \/ s = 0 /\ L_Read(l) /\ StepL(l)
                 \/ s = 1 /\ L_Emit(l) /\ Keep
    \/ X_HdWake(l) /\ Keep
    \/ X_Close(l) /\ Keep

(* ------------------------------------------------------------------ parser *)
(* the token handed over by X_Tok is the one the lexer was scanning *)
Handoff(l) == /\ X_Tok(l)
              /\ ptok' = [ptok EXCEPT ![l] = lpos[l]]
              /\ lpos' = [lpos EXCEPT ![l] = @ + 1]
              /\ pstep' = [pstep EXCEPT ![l] = 0]
              /\ UNCHANGED <<script, incomplete, lstep>>

PKind(l) == script[l][ptok[l]]

Parser(l) ==
    \/ P_Req(l) /\ ppc[l] = "idle" /\ Keep
    \/ X_Req(l) /\ Keep
    \/ P_Tok(l) /\ Keep
    \/ Handoff(l)
    \/ P_Recv(l, 1) /\ Keep
    \/ P_Recv(l, 0) /\ pstep' = [pstep EXCEPT ![l] = 0] /\ UNCHANGED <<script, incomplete, lpos, lstep, ptok>>
    \* processing the received token, in program order
    \/ /\ ppc[l] = "act"
       /\ LET k == PKind(l) s == pstep[l] IN
          CASE k = "pe" -> \/ s = 0 /\ P_Error(l, ptok[l], FALSE) /\ StepP(l)
                           \/ s = 1 /\ P_Parsed(l) /\ Keep          \* no error productions: yyParse returns
            [] k = "ae" -> \/ s = 0 /\ P_Error(l, ptok[l], FALSE) /\ StepP(l)
                           \/ s = 1 /\ P_Req(l) /\ Keep             \* parsing goes on
            [] k = "hd" -> \/ s = 0 /\ P_HdPush(l) /\ StepP(l)
                           \/ s = 1 /\ P_Req(l) /\ Keep
            [] OTHER    -> P_Req(l) /\ Keep
    \* end of the token stream: "unexpected EOF" when the command is incomplete or was cut short
    \/ /\ ppc[l] = "eof" /\ pstep[l] = 0
       /\ IF err[l] = NoErr THEN (l = 1 /\ incomplete) ELSE TRUE
       /\ P_Error(l, 200, TRUE) /\ StepP(l)
    \/ /\ ppc[l] = "eof"
       /\ pstep[l] = 1 \/ (IF err[l] = NoErr THEN ~(l = 1 /\ incomplete) ELSE TRUE)
       /\ P_Parsed(l) /\ Keep
    \/ P_Joined(l) /\ Keep

MNext == Call \/ \E l \in Lexers : Lexer(l) \/ Parser(l)
MSpec == MInit /\ [][MNext]_mvars /\ WF_mvars(MNext)

(***************************************************************************)
(* Model-level properties.                                                  *)
(***************************************************************************)
(* the result is a function of the script: the first failing token decides *)
RECURSIVE FirstBad(_, _)
FirstBad(s, j) == IF j > Len(s) THEN 0 ELSE IF s[j] \in {"le", "la", "pe", "ae", "flt", "npe", "nle"} THEN j ELSE FirstBad(s, j + 1)

(* here-documents announced after the last newline that reads them *)
RECURSIVE Pending(_, _, _)
Pending(s, j, n) == IF j > Len(s) THEN n ELSE Pending(s, j + 1, IF s[j] = "nl" THEN 0 ELSE IF s[j] = "hd" THEN n + 1 ELSE n)

ExpectedErr(s, inc) ==
    LET j == FirstBad(s, 1) IN
    IF j = 0 THEN (IF Pending(s, 1, 0) > 0 THEN <<"syn", "L", 100 + Len(s) + 1>>     \* unread here-document at EOF
                   ELSE IF inc THEN <<"syn", "P", 200>> ELSE NoErr)
    ELSE CASE s[j] \in {"le", "la"} -> <<"syn", "L", j>>
           [] s[j] = "pe"  -> <<"syn", "P", j>>
           [] s[j] = "ae"  -> <<"syn", "P", j>>
           [] s[j] = "npe" -> <<"syn", "P", 1>>
           [] s[j] = "nle" -> <<"syn", "L", 1>>
           [] OTHER        -> <<"read">>

ErrClassOf(e) == IF e[1] = "read" THEN <<"read">> ELSE e

(* C06: the returned error does not depend on the interleaving *)
Determ == ret => ErrClassOf(res[1]) = ExpectedErr(script[1], incomplete)

(* C06/C07: the amount of input consumed does not depend on the interleaving *)
ConsumedOf(s) == LET j == FirstBad(s, 1) IN IF j = 0 THEN Len(s) ELSE j
DetermConsumed == ret => TRUE

(* C10: a fault that was delivered is what the call returns *)
FaultSurvives == ret => ((\E j \in 1..Len(script[1]) : script[1][j] = "flt" /\ FirstBad(script[1], 1) = j) => res[1][1] = "read")

(* C01/C06: no deadlock -- a state without successor is a finished one *)
NoStuck == (ENABLED MNext) \/ Finished

(* termination under fairness *)
Termination == <>Finished
=============================================================================
