----------------------------- MODULE ShellCheck -----------------------------
(* Validation of parser observations for generated programs (C02).         *)
EXTENDS ShellSkel, Json, IOUtils
Recs == ndJsonDeserialize(IOEnv.VERIF_OBS)
N == Len(Recs)
VARIABLE k
Init == k = 1
Next == k < N /\ k' = k + 1
Chk == MirrorsDerivation(Recs[k]) \/ PrintT(<<"MISMATCH", k>>)
=============================================================================
