---------------------------- MODULE PatternGen -----------------------------
(* Case generator for C12: every pattern up to MaxP symbols over PatAlpha   *)
(* (BFS, one state per pattern) with the expected result of the four modes  *)
(* for every subject up to MaxS symbols over SubjAlpha.                     *)
EXTENDS Pattern, Json

CONSTANTS PatAlpha,    \* sequence of symbols
          SubjAlpha,   \* sequence of symbols
          MaxP, MaxS

VARIABLE pat

Subjects == SeqsUpTo(SubjAlpha, MaxS)

\* the patterns the enumeration starts from (overridden for the bracket-opening family)
Roots == {<<>>}
Init == pat \in Roots
Next == /\ Len(pat) < MaxP
        /\ \E i \in 1..Len(PatAlpha) : pat' = Append(pat, PatAlpha[i])

CaseOf(p) ==
    LET pr   == Parse(p)
        itss == {pr.items}
        r    == [i \in 1..Len(Subjects) |-> Res4(itss, Subjects[i])]
    IN  [p   |-> p,
         st  |-> pr.st,
         exp |-> [ps |-> [i \in 1..Len(Subjects) |-> r[i][1]],
                  pl |-> [i \in 1..Len(Subjects) |-> r[i][2]],
                  ss |-> [i \in 1..Len(Subjects) |-> r[i][3]],
                  sl |-> [i \in 1..Len(Subjects) |-> r[i][4]]]]

\* several patterns match exactly when one of them does: the pattern
\* paired with a fixed second pattern, in both orders
Second == <<"a", "*">>

PairOf(ps) ==
    LET prs  == [i \in 1..Len(ps) |-> Parse(ps[i])]
        itss == {prs[i].items : i \in 1..Len(ps)}
        st   == IF \A i \in 1..Len(ps) : prs[i].st = "ok" THEN "ok" ELSE "unspec"
        r    == [i \in 1..Len(Subjects) |-> Res4(itss, Subjects[i])]
    IN  [p   |-> ps[1], pats |-> ps,
         st  |-> st,
         exp |-> [ps |-> [i \in 1..Len(Subjects) |-> r[i][1]],
                  pl |-> [i \in 1..Len(Subjects) |-> r[i][2]],
                  ss |-> [i \in 1..Len(Subjects) |-> r[i][3]],
                  sl |-> [i \in 1..Len(Subjects) |-> r[i][4]]]]

CONSTANT WithPairs

Emit == /\ PrintT(<<"CASE", ToJson(CaseOf(pat))>>)
        /\ WithPairs => /\ PrintT(<<"CASE", ToJson(PairOf(<<pat, Second>>))>>)
                         /\ PrintT(<<"CASE", ToJson(PairOf(<<Second, pat>>))>>)

\* printed once (from the initial state)
EmitSubjects == pat \notin Roots \/ PrintT(<<"SUBJ", ToJson(Subjects)>>)

Inv == Emit /\ EmitSubjects
=============================================================================
