------------------------------ MODULE HdCheck -------------------------------
(* C08: here-document bodies are attached to the right redirection,         *)
(* verbatim.  rec.hd is the list [body, dl] announced by the derivation in  *)
(* source order; rec.obs.hd the texts found in the AST in source order;     *)
(* the skeleton comparison covers "scanned for expansions iff no part of   *)
(* the delimiter is quoted" (the body's parts are in the skeleton).         *)
EXTENDS ShellSkel, Json, IOUtils
Recs == ndJsonDeserialize(IOEnv.VERIF_OBS)
N == Len(Recs)
VARIABLE k
Init == k = 1
Next == k < N /\ k' = k + 1

Attached(rec) ==
    /\ Len(rec.obs.hd) = Len(rec.hd)
    /\ \A i \in 1..Len(rec.hd) :
         /\ rec.obs.hd[i].set
         /\ rec.obs.hd[i].body = rec.hd[i].body      \* byte for byte
         /\ rec.obs.hd[i].dl = rec.hd[i].dl          \* the delimiter line (tabs kept for <<-)

Chk == (MirrorsDerivation(Recs[k]) /\ Attached(Recs[k])) \/ PrintT(<<"MISMATCH", k>>)
=============================================================================
