-------------------------------- MODULE Robust --------------------------------
(* C19: everything downstream of the parser terminates without panicking    *)
(* and reports failures through the documented error values.                *)
EXTENDS Integers, Sequences, TLC, Json, IOUtils
Recs == ndJsonDeserialize(IOEnv.VERIF_OBS)
N == Len(Recs)
VARIABLE k
Init == k = 1
Next == k < N /\ k' = k + 1

Documented == {"none", "syntax", "arith", "param", "nomatch", "regexp"}

Holds(r) == /\ r.panics = <<>>                                    \* Pos/End, Fprint x 256, Expand x modes, Eval, Match, Glob
            /\ \A i \in 1..Len(r.errs) : r.errs[i] \in Documented
            /\ (r.kind = "opts" => r.got = r.exp)                  \* Option.String, all 2^14 values

Chk == Holds(Recs[k]) \/ PrintT(<<"MISMATCH", k>>)
=============================================================================
