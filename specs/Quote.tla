-------------------------------- MODULE Quote --------------------------------
(***************************************************************************)
(* C15: quoted text survives parsing and expansion unchanged.               *)
(*                                                                          *)
(* For a string s (sequence of symbols) the four literal spellings that     *)
(* POSIX defines (XCU 2.2):                                                 *)
(*   SQ     single quotes; a single quote inside is spliced as '\''         *)
(*   DQ     double quotes with $ ` " \ backslash-escaped                    *)
(*   BS     a backslash before every character (a newline cannot be         *)
(*          backslash-quoted: it is written in single quotes)               *)
(*   MIX    the styles alternating character by character                   *)
(* Parsing the spelling and expanding the word must give exactly one field  *)
(* equal to s in every expansion mode; in Pattern mode the result must be   *)
(* a pattern that matches s and none of its perturbations (Pattern.tla).    *)
(***************************************************************************)
EXTENDS Integers, Sequences, SequencesExt, FiniteSets, TLC, Json

P == INSTANCE Pattern

CONSTANTS Alpha, MaxLen
VARIABLE str

RECURSIVE SQBody(_)
SQBody(s) == IF s = <<>> THEN <<>> ELSE (IF Head(s) = "'" THEN <<"'", "\\", "'", "'">> ELSE <<Head(s)>>) \o SQBody(Tail(s))
SQ(s) == <<"'">> \o SQBody(s) \o <<"'">>

RECURSIVE DQBody(_)
DQBody(s) == IF s = <<>> THEN <<>> ELSE (IF Head(s) \in {"$", "`", "DQ", "\\"} THEN <<"\\", Head(s)>> ELSE <<Head(s)>>) \o DQBody(Tail(s))
DQ(s) == <<"DQ">> \o DQBody(s) \o <<"DQ">>

RECURSIVE BSBody(_)
BSBody(s) == IF s = <<>> THEN <<>> ELSE (IF Head(s) = "NL" THEN <<"'", "NL", "'">> ELSE <<"\\", Head(s)>>) \o BSBody(Tail(s))
BS(s) == IF s = <<>> THEN <<"'", "'">> ELSE BSBody(s)

RECURSIVE MixBody(_, _)
MixBody(s, i) == IF s = <<>> THEN <<>>
                 ELSE (CASE i % 3 = 0 -> SQ(<<Head(s)>>) [] i % 3 = 1 -> DQ(<<Head(s)>>) [] OTHER -> BS(<<Head(s)>>)) \o MixBody(Tail(s), i + 1)
MIX(s) == IF s = <<>> THEN <<"DQ", "DQ">> ELSE MixBody(s, 0)

(* perturbations of s: strings that a pattern for s must NOT match *)
Perturb(s) == ({<<>>, <<"a">>, s \o <<"a">>, <<"a">> \o s} \cup {SubSeq(s, 1, Len(s) - 1)}
               \cup {[s EXCEPT ![i] = IF s[i] = "a" THEN "b" ELSE "a"] : i \in 1..Len(s)}) \ {s}

Init == str = <<>>
Next == Len(str) < MaxLen /\ \E i \in 1..Len(Alpha) : str' = Append(str, Alpha[i])

Emit == PrintT(<<"CASE", ToJson([s |-> str, sq |-> SQ(str), dq |-> DQ(str), bs |-> BS(str), mix |-> MIX(str), pert |-> SetToSeq(Perturb(str))])>>)

(***************************************************************************)
(* Property predicate.  rec.s the string; rec.obs[style][mode] the fields   *)
(* (symbol sequences) or <<"ERROR", ...>>; for mode "pattern" the single    *)
(* field is the pattern.                                                    *)
(***************************************************************************)
Styles == <<"sq", "dq", "bs", "mix">>
PlainModes == <<"default", "arith", "assign", "literal", "quote">>

PatternOK(s, pat) ==
    LET pr == P!Parse(pat) IN
    /\ pr.st = "ok"
    /\ P!Matches(pr.items, s)
    /\ \A x \in Perturb(s) : ~P!Matches(pr.items, x)

StyleOK(s, o) ==
    /\ \A m \in 1..Len(PlainModes) : o[PlainModes[m]] = <<s>>          \* exactly one field, equal to s
    /\ Len(o.pattern) = 1 /\ PatternOK(s, o.pattern[1])               \* by the reference matcher, on the text of the pattern
    /\ o.realmatch = << <<"self">> >>                                       \* and by pattern.Match itself: s and none of its perturbations

Holds(rec) == /\ rec.panic = ""
              /\ \A i \in 1..Len(Styles) : StyleOK(rec.s, rec.obs[Styles[i]])
=============================================================================
