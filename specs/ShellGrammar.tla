---------------------------- MODULE ShellGrammar ----------------------------
(***************************************************************************)
(* The dialect accepted by hattya/go.sh: the POSIX Shell Command Language   *)
(* grammar (XCU 2.10) plus the (( expr )) command, in the AST-shaped        *)
(* reading (a compound list is a sequence of lines; a line is a list of     *)
(* and-or lists joined by ; or &).                                          *)
(*                                                                          *)
(* Alts(nt) gives the alternatives of a nonterminal.  An alternative has a  *)
(* cost (0 = the minimal alternative, used when the deviation budget or the *)
(* depth bound is exhausted) and a right-hand side of                       *)
(*   terminals      [k "t", t text, gap, lb, semi, hd]                      *)
(*   markers        [k "m", m string]   -- goes to the skeleton only        *)
(*   nonterminals   [k "n", n name, d depth, top, nh, adj, end]             *)
(* The skeleton (sequence of markers) emitted by a derivation is the        *)
(* position-free AST expected from the parser (DESIGN.md Appendix A,        *)
(* harness/proj/skel.go).                                                   *)
(*                                                                          *)
(* Terminal attributes (the layout contract used by C09):                   *)
(*   gap   "sp"  blanks may precede the token (one is printed)              *)
(*         "adj" the token touches the previous one (same word, IO_NUMBER,  *)
(*               name= of an assignment)                                    *)
(*   lb    a <newline> (linebreak) may follow this token                    *)
(*   semi  this ";" may be replaced by a <newline>                          *)
(*   hd    here-documents announced by this token: <<[body, dl]>>           *)
(***************************************************************************)
EXTENDS Integers, Sequences, TLC

T(t)   == [k |-> "t", t |-> t, gap |-> "sp",  lb |-> FALSE, semi |-> FALSE, hd |-> <<>>, nlk |-> ""]
TA(t)  == [k |-> "t", t |-> t, gap |-> "adj", lb |-> FALSE, semi |-> FALSE, hd |-> <<>>, nlk |-> ""]
TL(t)  == [k |-> "t", t |-> t, gap |-> "sp",  lb |-> TRUE,  semi |-> FALSE, hd |-> <<>>, nlk |-> ""]
TS(t)  == [k |-> "t", t |-> t, gap |-> "sp",  lb |-> TRUE,  semi |-> TRUE,  hd |-> <<>>, nlk |-> ""]
NL     == [k |-> "t", t |-> "\n", gap |-> "sp", lb |-> TRUE, semi |-> FALSE, hd |-> <<>>, nlk |-> "sep"]
NLB    == [k |-> "t", t |-> "\n", gap |-> "sp", lb |-> TRUE, semi |-> FALSE, hd |-> <<>>, nlk |-> "lb"]   \* inside a linebreak
THD(t, g, body, dl) == [k |-> "t", t |-> t, gap |-> g, lb |-> FALSE, semi |-> FALSE,
                        hd |-> <<[body |-> body, dl |-> dl]>>, nlk |-> ""]
NLF    == [k |-> "t", t |-> "\n", gap |-> "sp", lb |-> FALSE, semi |-> FALSE, hd |-> <<>>, nlk |-> "sep"]   \* the newline that ends the command line
TC(t)  == [k |-> "t", t |-> t, gap |-> "sp",  lb |-> FALSE, semi |-> FALSE, hd |-> <<>>, nlk |-> "cs"]   \* the ")" of $( ) after a newline: part of a word
TCA(t) == [k |-> "t", t |-> t, gap |-> "adj", lb |-> FALSE, semi |-> FALSE, hd |-> <<>>, nlk |-> "cs"]   \* the ")" of $( ) touching the last word
M(m)   == [k |-> "m", m |-> m]

(* nonterminal: name, depth, top (not inside a compound command), nh (no    *)
(* here-document may be announced here), adj (first terminal touches the    *)
(* previous token), end (separator carried by the last and-or list)         *)
NT(n, d, top, nh, adj, end) == [k |-> "n", n |-> n, d |-> d, top |-> top, nh |-> nh, adj |-> adj, end |-> end, par |-> FALSE, bq |-> FALSE]
InPar(x) == [x EXCEPT !.par = TRUE]
P(nt, x) == [x EXCEPT !.par = nt.par, !.bq = nt.bq]    \* inherit "inside parentheses" and "inside backquotes"
InBq(x) == [x EXCEPT !.bq = TRUE]        \* inside a backquoted substitution no other backquote may appear (it would have to be escaped)

A(c, r) == [c |-> c, r |-> r]

CONSTANT MaxDepth      \* beyond this depth only cost-0 alternatives are used

(* markers of a literal word *)
WLit(s) == <<M("w["), M("lit:" \o s), M("]w")>>

(***************************************************************************)
(* Word parts.  Leaf parts are a pool of (text, markers); structural parts  *)
(* contain nonterminals.  `g` is the gap of the part's first terminal.      *)
(***************************************************************************)
TG(t, g) == [k |-> "t", t |-> t, gap |-> g, lb |-> FALSE, semi |-> FALSE, hd |-> <<>>, nlk |-> ""]

LeafParts ==
  << [c |-> 0, t |-> "a",        m |-> <<"lit:a">>],
     [c |-> 1, t |-> "b1",       m |-> <<"lit:b1">>],
     [c |-> 1, t |-> "x/y.z",    m |-> <<"lit:x/y.z">>],
     [c |-> 1, t |-> "'q r'",    m |-> <<"sq[", "lit:q r", "]sq">>],
     [c |-> 1, t |-> "''",       m |-> <<"sq[", "lit:", "]sq">>],
     [c |-> 1, t |-> "'if'",     m |-> <<"sq[", "lit:if", "]sq">>],
     [c |-> 1, t |-> "\"d e\"",  m |-> <<"dq[", "lit:d e", "]dq">>],
     [c |-> 1, t |-> "\"\"",     m |-> <<"dq[", "]dq">>],
     [c |-> 1, t |-> "\"x $v y\"", m |-> <<"dq[", "lit:x ", "pe[", "name:v", "]pe", "lit: y", "]dq">>],
     [c |-> 1, t |-> "\"a\\\"b\"", m |-> <<"dq[", "lit:a", "bs:\"", "lit:b", "]dq">>],
     [c |-> 1, t |-> "\"${v}$(a)\"", m |-> <<"dq[", "pe[", "braces", "name:v", "]pe",
                                             "cs$[", "ln[", "ao[", "pl[", "c[", "simple[", "w[", "lit:a", "]w", "]simple", "]c", "]pl", "]ao", "]ln", "]cs", "]dq">>],
     [c |-> 1, t |-> "\\$",      m |-> <<"bs:$">>],
     [c |-> 1, t |-> "\\;",      m |-> <<"bs:;">>],
     [c |-> 1, t |-> "$v",       m |-> <<"pe[", "name:v", "]pe">>],
     [c |-> 1, t |-> "$1",       m |-> <<"pe[", "name:1", "]pe">>],
     [c |-> 1, t |-> "$@",       m |-> <<"pe[", "name:@", "]pe">>],
     [c |-> 1, t |-> "$#",       m |-> <<"pe[", "name:#", "]pe">>],
     [c |-> 1, t |-> "${v}",     m |-> <<"pe[", "braces", "name:v", "]pe">>],
     [c |-> 1, t |-> "${10}",    m |-> <<"pe[", "braces", "name:10", "]pe">>],
     [c |-> 1, t |-> "${#v}",    m |-> <<"pe[", "braces", "name:v", "peop:#", "]pe">>],
     [c |-> 1, t |-> "${#}",     m |-> <<"pe[", "braces", "name:#", "]pe">>],
     [c |-> 1, t |-> "${#%0}",   m |-> <<"pe[", "braces", "name:#", "peop:%", "w[", "lit:0", "]w", "]pe">>],      \* the special parameter # with an operator
     [c |-> 1, t |-> "${#:-0}",  m |-> <<"pe[", "braces", "name:#", "peop::-", "w[", "lit:0", "]w", "]pe">>],
     [c |-> 1, t |-> "$((1 + 2))", m |-> <<"ae[", "w[", "lit:1", "lit:+", "lit:2", "]w", "]ae">>],
     [c |-> 1, t |-> "$(( $v*(2-1) ))", m |-> <<"ae[", "w[", "pe[", "name:v", "]pe", "lit:*(2-1)", "]w", "]ae">>]
  >>

(* spellings of reserved words: ordinary words outside command position *)
ReservedSpellings == <<"if", "then", "else", "elif", "fi", "do", "done", "case", "esac", "while", "until",
                       "for", "in", "{", "}", "!">>

PEOps == <<":-", "-", ":=", "=", ":?", "?", ":+", "+", "%", "%%", "#", "##">>

MS(ms) == [i \in 1..Len(ms) |-> M(ms[i])]

(* the alternatives of one word part; g = gap of its first terminal *)
NonLit == SelectSeq(LeafParts, LAMBDA p : p.t \notin {"a", "b1", "x/y.z"})
PartAlts(nt, g, second) ==
     LET lp == IF second THEN NonLit ELSE LeafParts IN
     [i \in 1..Len(lp) |-> A(IF second /\ i = 1 THEN 0 ELSE lp[i].c, <<TG(lp[i].t, g)>> \o MS(lp[i].m))]
  \o [i \in 1..Len(PEOps) |->
        A(1, <<TG("${v" \o PEOps[i], g), M("pe["), M("braces"), M("name:v"), M("peop:" \o PEOps[i]),
               P(nt, NT("peword", nt.d + 1, FALSE, TRUE, TRUE, "")), TA("}"), M("]pe")>>)]
  \o << A(1, <<TG("$(", g), M("cs$["), InPar(P(nt, NT("cslist", nt.d + 1, FALSE, TRUE, TRUE, ""))), TCA(")"), M("]cs")>>) >>
  \o (IF nt.bq THEN <<>> ELSE << A(1, <<TG("`", g), M("cs`["), InBq(P(nt, NT("cslist", nt.d + 1, FALSE, TRUE, TRUE, ""))), TA("`"), M("]cs")>>) >>)
  \o (IF nt.bq THEN <<>> ELSE << A(1, <<TG("$(", g), M("cs$["), InPar(P(nt, NT("cshd", nt.d + 1, FALSE, FALSE, TRUE, ""))), TC(")"), M("]cs")>>) >>)

(***************************************************************************)
(* Here-document pool: [op, word (source of the delimiter word), wm (its   *)
(* markers), body, bm (markers of the body, literals merged), dl (the      *)
(* delimiter line), dm (marker of the Delim word)]                          *)
(***************************************************************************)
HereDocs ==
  << [c |-> 1, op |-> "<<",  w |-> "E",      wm |-> <<"lit:E">>, body |-> "x\n",   bm |-> <<"lit:x\n">>, dl |-> "E",  dm |-> "lit:E"],
     [c |-> 1, op |-> "<<",  w |-> "E",      wm |-> <<"lit:E">>, body |-> "",      bm |-> <<>>,          dl |-> "E",  dm |-> "lit:E"],
     [c |-> 1, op |-> "<<",  w |-> "E",      wm |-> <<"lit:E">>, body |-> "\nx\n", bm |-> <<"lit:\nx\n">>, dl |-> "E", dm |-> "lit:E"],
     [c |-> 1, op |-> "<<",  w |-> "E",      wm |-> <<"lit:E">>, body |-> "\n",    bm |-> <<"lit:\n">>,  dl |-> "E", dm |-> "lit:E"],
     [c |-> 1, op |-> "<<",  w |-> "\"\"",   wm |-> <<"dq[", "]dq">>, body |-> "$v\n", bm |-> <<"lit:$v\n">>, dl |-> "", dm |-> ""],     \* an empty delimiter: ended by an empty line
     [c |-> 1, op |-> "<<",  w |-> "EOF",    wm |-> <<"lit:EOF">>, body |-> "EO\nOF\n EOF\nEOFF\n", bm |-> <<"lit:EO\nOF\n EOF\nEOFF\n">>, dl |-> "EOF", dm |-> "lit:EOF"],
     [c |-> 1, op |-> "<<",  w |-> "E",      wm |-> <<"lit:E">>, body |-> "a $v b\n", bm |-> <<"lit:a ", "pe[", "name:v", "]pe", "lit: b\n">>, dl |-> "E", dm |-> "lit:E"],
     [c |-> 1, op |-> "<<",  w |-> "E",      wm |-> <<"lit:E">>, body |-> "$(a) `b`\n",
           bm |-> <<"cs$[", "ln[", "ao[", "pl[", "c[", "simple[", "w[", "lit:a", "]w", "]simple", "]c", "]pl", "]ao", "]ln", "]cs", "lit: ",
                    "cs`[", "ln[", "ao[", "pl[", "c[", "simple[", "w[", "lit:b", "]w", "]simple", "]c", "]pl", "]ao", "]ln", "]cs", "lit:\n">>, dl |-> "E", dm |-> "lit:E"],
     [c |-> 1, op |-> "<<",  w |-> "E",      wm |-> <<"lit:E">>, body |-> "\\$v \\a\n", bm |-> <<"bs:$", "lit:v \\a\n">>, dl |-> "E", dm |-> "lit:E"],
     \* an expansion / an escape directly followed by the text of the delimiter; escaped backquotes
     [c |-> 1, op |-> "<<",  w |-> "E",      wm |-> <<"lit:E">>, body |-> "${v}E\n\\$E \\`b\\`\n",
           bm |-> <<"pe[", "braces", "name:v", "]pe", "lit:E\n", "bs:$", "lit:E ", "bs:`", "lit:b", "bs:`", "lit:\n">>, dl |-> "E", dm |-> "lit:E"],
     [c |-> 1, op |-> "<<",  w |-> "'E'",    wm |-> <<"sq[", "lit:E", "]sq">>, body |-> "$v `b` \\$\n", bm |-> <<"lit:$v `b` \\$\n">>, dl |-> "E", dm |-> "lit:E"],
     [c |-> 1, op |-> "<<",  w |-> "\\E",    wm |-> <<"bs:E">>, body |-> "$v\n", bm |-> <<"lit:$v\n">>, dl |-> "E", dm |-> "lit:E"],
     [c |-> 1, op |-> "<<",  w |-> "E\"O\"F", wm |-> <<"lit:E", "dq[", "lit:O", "]dq", "lit:F">>, body |-> "$v\n", bm |-> <<"lit:$v\n">>, dl |-> "EOF", dm |-> "lit:EOF"],
     [c |-> 1, op |-> "<<-", w |-> "E",      wm |-> <<"lit:E">>, body |-> "\tx\n", bm |-> <<"lit:\tx\n">>, dl |-> "\tE", dm |-> "lit:\tE"],
     [c |-> 1, op |-> "<<-", w |-> "E",      wm |-> <<"lit:E">>, body |-> "x\n",   bm |-> <<"lit:x\n">>,   dl |-> "E",   dm |-> "lit:E"],
     \* look-alikes of the delimiter line: indented with blanks under <<-, indented with a tab under <<
     [c |-> 1, op |-> "<<-", w |-> "E",      wm |-> <<"lit:E">>, body |-> "\tb\n  E\n \tE\n\tm\n", bm |-> <<"lit:\tb\n  E\n \tE\n\tm\n">>, dl |-> "\tE", dm |-> "lit:\tE"],
     [c |-> 1, op |-> "<<",  w |-> "E",      wm |-> <<"lit:E">>, body |-> "\tE\nx\n", bm |-> <<"lit:\tE\nx\n">>, dl |-> "E", dm |-> "lit:E"],
     [c |-> 1, op |-> "<<-", w |-> "'E'",    wm |-> <<"sq[", "lit:E", "]sq">>, body |-> "\t\t$v\n\tE \n", bm |-> <<"lit:\t\t$v\n\tE \n">>, dl |-> "\t\tE", dm |-> "lit:\t\tE"] >>

HereAlt(h, n) ==  \* n: "" or an IO number
    A(h.c, <<M("r[")>> \o (IF n = "" THEN <<T(h.op)>> ELSE <<T(n), M("n:" \o n), TA(h.op)>>)
           \o <<M("rop:" \o h.op), THD(h.w, "sp", h.body, h.dl), M("w[")>> \o MS(h.wm) \o <<M("]w"), M("body[")>>
           \o MS(h.bm) \o <<M("]body"), M("delim[")>> \o (IF h.dm = "" THEN <<>> ELSE <<M(h.dm)>>) \o <<M("]delim"), M("]r")>>)

RedirOps == <<">", "<", ">>", ">|", "<>", ">&", "<&">>

ArithPool ==
  << [c |-> 0, t |-> "1 + 2",   m |-> <<"lit:1", "lit:+", "lit:2">>],
     [c |-> 1, t |-> "x<y",     m |-> <<"lit:x<y">>],
     [c |-> 1, t |-> "$v > (1)", m |-> <<"pe[", "name:v", "]pe", "lit:>", "lit:(1)">>],
     \* a quotation directly behind other text of the expression
     [c |-> 1, t |-> "x+\"$v\"",  m |-> <<"lit:x+", "dq[", "pe[", "name:v", "]pe", "]dq">>],
     [c |-> 1, t |-> "1+'2'*\\3", m |-> <<"lit:1+", "sq[", "lit:2", "]sq", "lit:*", "bs:3">>],
     \* parts on several lines; the second line starts in column 1 or near the column where the first line ended
     \* (the printer decides on blanks between parts from their positions)
     [c |-> 1, t |-> "a -\n-b",       m |-> <<"lit:a", "lit:-", "lit:-b">>],
     [c |-> 1, t |-> "a -\n    -b",   m |-> <<"lit:a", "lit:-", "lit:-b">>],
     [c |-> 1, t |-> "a -\n     -b",  m |-> <<"lit:a", "lit:-", "lit:-b">>],
     [c |-> 1, t |-> "a -\n      -b", m |-> <<"lit:a", "lit:-", "lit:-b">>] >>

(***************************************************************************)
(* Alternatives.                                                            *)
(***************************************************************************)
Sub(nt, n)        == P(nt, NT(n, nt.d + 1, FALSE, nt.nh, FALSE, ""))
SubE(nt, n, e)    == P(nt, NT(n, nt.d + 1, FALSE, nt.nh, FALSE, e))
Same(nt, n)       == P(nt, NT(n, nt.d, nt.top, nt.nh, FALSE, ""))
SameE(nt, n, e)   == P(nt, NT(n, nt.d, nt.top, nt.nh, FALSE, e))
Word(nt)          == P(nt, NT("word", nt.d, nt.top, nt.nh, FALSE, ""))
SepMarks(e)       == IF e = "" THEN <<>> ELSE <<(IF e = ";" THEN TS(";") ELSE TL("&")), M("sep:" \o e)>>
(* a ";" or "&" at top level is not followed by a linebreak *)
TopSep(nt, e)     == IF e = "" THEN <<>> ELSE <<(IF nt.top THEN T(e) ELSE IF e = ";" THEN TS(";") ELSE TL("&")), M("sep:" \o e)>>

RECURSIVE Alts(_)
Alts(nt) ==
  CASE nt.n = "prog" ->
         << A(0, <<M("ln["), NT("list", 0, TRUE, FALSE, FALSE, ""),  M("]ln"), NLF>>),
            A(1, <<M("ln["), NT("list", 0, TRUE, FALSE, FALSE, ";"), M("]ln"), NLF>>),
            A(1, <<M("ln["), NT("list", 0, TRUE, FALSE, FALSE, "&"), M("]ln"), NLF>>) >>
    \* ---------------------------------------------------------- newline focus: a newline outside and, later, one inside a command substitution
    [] nt.n = "nlprog" ->
         LET CsNL == <<M("w["), T("$("), M("cs$["), M("ln["), M("ao["), M("pl["), M("c["), M("simple["), TA("a")>> \o WLit("a")
                     \o <<M("]simple"), M("]c"), M("]pl"), M("]ao"), M("]ln"), NL, TC(")"), M("]cs"), M("]w")>>
             CsBq == <<M("w["), T("`"), M("cs`["), M("ln["), M("ao["), M("pl["), M("c["), M("simple["), TA("a")>> \o WLit("a")
                     \o <<M("]simple"), M("]c"), M("]pl"), M("]ao"), M("]ln"), NL, T("`"), M("]cs"), M("]w")>>
             Cmd(cs) == <<M("ao["), M("pl["), M("c["), M("simple["), T("a")>> \o WLit("a") \o cs \o <<M("]simple"), M("]c"), M("]pl"), TS(";"), M("sep:;"), M("]ao")>>
             S0 == <<M("ao["), M("pl["), M("c["), M("simple["), T("a")>> \o WLit("a") \o <<M("]simple"), M("]c"), M("]pl"), M("]ao")>>
             Wrap(b) == <<M("ln["), M("ao["), M("pl["), M("c[")>> \o b \o <<M("]c"), M("]pl"), M("]ao"), M("]ln"), NLF>>
         IN
         << A(0, Wrap(<<TL("{"), NLB, M("grp["), M("ln[")>> \o Cmd(CsNL) \o <<M("]ln"), T("}"), M("]grp")>>)),
            A(1, Wrap(<<TL("{"), NLB, M("grp["), M("ln[")>> \o Cmd(CsBq) \o <<M("]ln"), T("}"), M("]grp")>>)),
            A(1, Wrap(<<TL("if"), M("if["), M("cond["), M("ln[")>> \o S0 \o <<M("]ln"), NL, M("]cond"), TL("then"), M("then["), M("ln[")>> \o Cmd(CsNL \o CsNL)
                      \o <<M("]ln"), M("]then"), T("fi"), M("]if")>>)) >>
    \* ---------------------------------------------------------- word focus: one argument word, the budget goes into its parts
    [] nt.n = "wprog" ->
         << A(0, <<M("ln["), M("ao["), M("pl["), M("c["), M("simple["), T("a")>> \o WLit("a") \o <<Word(nt), M("]simple"), M("]c"), M("]pl"), M("]ao"), M("]ln"), NLF>>) >>
    \* ---------------------------------------------------------- here-document focus (C08)
    [] nt.n = "hd0" -> [i \in 1..Len(HereDocs) |-> [HereAlt(HereDocs[i], "") EXCEPT !.c = 0]]
                       \o << [HereAlt(HereDocs[5], "4") EXCEPT !.c = 0] >>
    [] nt.n = "hd1" -> << [HereAlt(HereDocs[1], "") EXCEPT !.c = 0], [HereAlt(HereDocs[Len(HereDocs)], "") EXCEPT !.c = 0],
                          [HereAlt(HereDocs[CHOOSE i \in 1..Len(HereDocs) : HereDocs[i].body = "\tb\n  E\n \tE\n\tm\n"], "") EXCEPT !.c = 0] >>
    [] nt.n \in {"hdprog", "hdlay"} ->   \* commands carrying 1-3 here-documents at every kind of redirection site
         \* (hdlay: the same sites with two pool entries only -- for the layout and stream checks)
         LET H    == NT(IF nt.n = "hdlay" THEN "hd1" ELSE "hd0", 1, FALSE, FALSE, FALSE, "")
             Cat  == <<M("c["), M("simple["), T("cat")>> \o WLit("cat") \o <<M("]simple")>>
             CatA == <<M("c["), M("simple["), TA("cat")>> \o WLit("cat") \o <<M("]simple")>>
             Cmd(hs) == <<M("ao["), M("pl[")>> \o Cat \o hs \o <<M("]c"), M("]pl"), M("]ao")>>
             Simple  == <<M("ao["), M("pl["), M("c["), M("simple["), T("a")>> \o WLit("a") \o <<M("]simple"), M("]c"), M("]pl")>>
             Pa      == <<M("pl["), M("c["), M("simple["), T("a")>> \o WLit("a") \o <<M("]simple"), M("]c"), M("]pl")>>
             Hd1     == <<M("ln["), M("ao["), M("pl[")>> \o Cat \o <<H, M("]c"), M("]pl"), T(";"), M("sep:;"), M("]ao")>>     \* cat H ;
             S0      == Simple \o <<M("]ao")>>
             Ss      == Simple \o <<TS(";"), M("sep:;"), M("]ao")>>
             LnS     == <<M("ln[")>> \o Ss \o <<M("]ln")>>
             Ln0nl   == <<M("ln[")>> \o S0 \o <<M("]ln"), NL>>
             Wr(b)   == A(1, Hd1 \o <<M("ao["), M("pl["), M("c[")>> \o b \o <<M("]c"), M("]pl"), M("]ao"), M("]ln"), NLF>>)
             Item(n1, n2) == <<M("item["), M("pats["), T("p*")>> \o WLit("p*") \o <<M("]pats"), TL(")")>> \o n1 \o <<M("ln[")>> \o S0
                             \o <<M("]ln"), TL(";;")>> \o n2 \o <<M("op:;;"), M("]item")>>
         IN
         << A(0, <<M("ln[")>> \o Cmd(<<H>>) \o <<M("]ln"), NLF>>),
            A(1, <<M("ln[")>> \o Cmd(<<H, H>>) \o <<M("]ln"), NLF>>),
            A(1, <<M("ln[")>> \o Cmd(<<H, H, H>>) \o <<M("]ln"), NLF>>),
            \* pipeline, and-or list, ;-list
            A(1, <<M("ln["), M("ao["), M("pl[")>> \o Cat \o <<H, M("]c"), TL("|"), M("op:|")>> \o Cat \o <<H, M("]c"), M("]pl"), M("]ao"), M("]ln"), NLF>>),
            A(1, <<M("ln["), M("ao["), M("pl[")>> \o Cat \o <<H, M("]c"), M("]pl"), TL("&&"), M("op:&&"), M("pl[")>> \o Cat \o <<H, M("]c"), M("]pl"), M("]ao"), M("]ln"), NLF>>),
            A(1, <<M("ln["), M("ao["), M("pl[")>> \o Cat \o <<H, M("]c"), M("]pl"), T(";"), M("sep:;"), M("]ao")>> \o Cmd(<<H>>) \o <<M("]ln"), NLF>>),
            \* linebreak newline between the two commands: the first body precedes the second command
            A(1, <<M("ln["), M("ao["), M("pl[")>> \o Cat \o <<H, M("]c"), TL("|"), M("op:|"), NLB>> \o Cat \o <<H, M("]c"), M("]pl"), M("]ao"), M("]ln"), NLF>>),
            \* on a compound command, and inside one (single-line and multi-line)
            A(1, <<M("ln["), M("ao["), M("pl["), M("c["), TL("{"), M("grp["), M("ln["), M("ao["), M("pl[")>> \o Cat \o <<H, M("]c"), M("]pl"), TS(";"), M("sep:;"), M("]ao"), M("]ln")>>
                   \o <<T("}"), M("]grp"), H, M("]c"), M("]pl"), M("]ao"), M("]ln"), NLF>>),
            A(1, <<M("ln["), M("ao["), M("pl["), M("c["), TL("if"), M("if["), M("cond["), M("ln[")>> \o Cmd(<<H>>) \o <<M("]ln"), NL, M("]cond"),
                   TL("then"), M("then["), M("ln[")>> \o Cmd(<<H>>) \o <<M("]ln"), NL, M("]then"), T("fi"), M("]if"), H, M("]c"), M("]pl"), M("]ao"), M("]ln"), NLF>>),
            A(1, <<M("ln["), M("ao["), M("pl["), M("c["), TL("while"), M("while["), M("cond["), M("ln["), M("ao["), M("pl[")>> \o Cat \o <<H, M("]c"), M("]pl"), TS(";"), M("sep:;"), M("]ao"), M("]ln"), M("]cond"),
                   TL("do"), M("do["), M("ln["), M("ao["), M("pl[")>> \o Cat \o <<H, M("]c"), M("]pl"), TS(";"), M("sep:;"), M("]ao"), M("]ln"), M("]do"), T("done"), M("]while"), M("]c"), M("]pl"), M("]ao"), M("]ln"), NLF>>),
            A(1, <<M("ln["), M("ao["), M("pl["), M("c["), TL("("), M("sub["), M("ln[")>> \o Cmd(<<H>>) \o <<M("]ln"), NL, M("ln[")>> \o Cmd(<<H>>) \o <<M("]ln"), NL, T(")"), M("]sub"), M("]c"), M("]pl"), M("]ao"), M("]ln"), NLF>>),
            \* a here-document pending on the line when a multi-line compound command starts (whose condition holds another one,
            \* or is a multi-line brace group): the bodies follow the first newline, in operator order
            A(1, <<M("ln["), M("ao["), M("pl[")>> \o Cat \o <<H, M("]c"), TL("|"), M("op:|"), M("c["), TL("while"), M("while["), M("cond["), M("ln[")>> \o Cmd(<<H>>) \o <<M("]ln"), NL, M("]cond"),
                   TL("do"), M("do["), M("ln[")>> \o Simple \o <<TS(";"), M("sep:;"), M("]ao"), M("]ln"), M("]do"), T("done"), M("]while"), M("]c"), M("]pl"), M("]ao"), M("]ln"), NLF>>),
            A(1, <<M("ln["), M("ao["), M("pl[")>> \o Cat \o <<H, M("]c"), M("]pl"), TL("&&"), M("op:&&"), M("pl["), M("c["), TL("if"), M("if["), M("cond["), M("ln["), M("ao["), M("pl[")>> \o Cat \o <<H, M("]c"), M("]pl"), TS(";"), M("sep:;"), M("]ao"), M("]ln"), M("]cond"),
                   TL("then"), NLB, M("then["), M("ln[")>> \o Simple \o <<M("]ao"), M("]ln"), NL, M("]then"), T("fi"), M("]if"), M("]c"), M("]pl"), M("]ao"), M("]ln"), NLF>>),
            A(1, <<M("ln["), M("ao["), M("pl[")>> \o Cat \o <<H, M("]c"), TL("|"), M("op:|"), M("c["), TL("if"), M("if["), M("cond["), M("ln["), M("ao["), M("pl["), M("c["), TL("{"), NLB, M("grp["), M("ln[")>> \o Simple \o <<M("]ao"), M("]ln"), NL,
                   T("}"), M("]grp"), M("]c"), M("]pl"), TS(";"), M("sep:;"), M("]ao"), M("]ln"), M("]cond"),
                   TL("then"), NLB, M("then["), M("ln[")>> \o Simple \o <<M("]ao"), M("]ln"), NL, M("]then"), T("fi"), M("]if"), M("]c"), M("]pl"), M("]ao"), M("]ln"), NLF>>),
            A(1, <<M("ln["), M("ao["), M("pl[")>> \o Cat \o <<H, M("]c"), TL("|"), M("op:|"), M("c["), TL("until"), M("until["), M("cond["), M("ln["), M("ao["), M("pl["), M("c["), TL("{"), NLB, M("grp["), M("ln[")>> \o Simple \o <<M("]ao"), M("]ln"), NL,
                   T("}"), M("]grp"), M("]c"), M("]pl"), M("]ao"), M("]ln"), NL, M("]cond"),
                   TL("do"), NLB, M("do["), M("ln[")>> \o Simple \o <<M("]ao"), M("]ln"), NL, M("]do"), T("done"), M("]until"), M("]c"), M("]pl"), M("]ao"), M("]ln"), NLF>>),
            \* a here-document pending on the line while a newline is consumed at every other kind of site (the body follows
            \* that newline): after { ( if then else do, after the word list / the name of a for loop, around the items of
            \* a case, after f(), after && , as the separator inside a condition
            Wr(<<TL("{"), NLB, M("grp[")>> \o LnS \o <<T("}"), M("]grp")>>),
            Wr(<<TL("("), NLB, M("sub["), M("ln[")>> \o S0 \o <<M("]ln"), T(")"), M("]sub")>>),
            Wr(<<TL("if"), NLB, M("if["), M("cond[")>> \o LnS \o <<M("]cond"), TL("then"), M("then[")>> \o LnS \o <<M("]then"), T("fi"), M("]if")>>),
            Wr(<<TL("if"), M("if["), M("cond[")>> \o LnS \o <<M("]cond"), TL("then"), NLB, M("then[")>> \o LnS \o <<M("]then"), T("fi"), M("]if")>>),
            Wr(<<TL("if"), M("if["), M("cond[")>> \o LnS \o <<M("]cond"), TL("then"), M("then[")>> \o LnS \o <<M("]then"), TL("else"), NLB, M("else[")>> \o LnS \o <<M("]else"), T("fi"), M("]if")>>),
            Wr(<<TL("if"), M("if["), M("cond[")>> \o Ln0nl \o <<M("]cond"), TL("then"), M("then[")>> \o LnS \o <<M("]then"), T("fi"), M("]if")>>),
            Wr(<<TL("while"), M("while["), M("cond[")>> \o LnS \o <<M("]cond"), TL("do"), NLB, M("do[")>> \o LnS \o <<M("]do"), T("done"), M("]while")>>),
            Wr(<<TL("until"), M("until["), M("cond[")>> \o Ln0nl \o <<M("]cond"), TL("do"), M("do[")>> \o LnS \o <<M("]do"), T("done"), M("]until")>>),
            Wr(<<T("for"), M("for["), T("x"), M("name:x"), T("in"), M("in["), T("a")>> \o WLit("a") \o <<M("]in"), NLB, TL("do"), M("do[")>> \o LnS \o <<M("]do"), T("done"), M("]for")>>),
            Wr(<<T("for"), M("for["), T("x"), M("name:x"), NLB, TL("do"), M("do[")>> \o LnS \o <<M("]do"), T("done"), M("]for")>>),
            Wr(<<T("for"), M("for["), T("x"), M("name:x"), NLB, T("in"), M("in["), T("a")>> \o WLit("a") \o <<M("]in"), TS(";"), M("forsemi"), TL("do"), M("do[")>> \o LnS \o <<M("]do"), T("done"), M("]for")>>),
            Wr(<<T("case"), M("case["), T("a")>> \o WLit("a") \o <<TL("in"), NLB>> \o Item(<<>>, <<>>) \o <<T("esac"), M("]case")>>),
            Wr(<<T("case"), M("case["), T("a")>> \o WLit("a") \o <<TL("in")>> \o Item(<<NLB>>, <<>>) \o <<T("esac"), M("]case")>>),
            Wr(<<T("case"), M("case["), T("a")>> \o WLit("a") \o <<TL("in")>> \o Item(<<>>, <<NLB>>) \o <<T("esac"), M("]case")>>),
            Wr(<<T("case"), M("case["), T("a")>> \o WLit("a") \o <<NLB, TL("in")>> \o Item(<<>>, <<>>) \o <<T("esac"), M("]case")>>),
            A(1, Hd1 \o <<M("ao["), M("pl["), M("c["), M("fn["), T("f"), M("name:f"), T("("), TL(")"), NLB, M("c["), TL("{"), M("grp[")>> \o LnS
                   \o <<T("}"), M("]grp"), M("]c"), M("]fn"), M("]c"), M("]pl"), M("]ao"), M("]ln"), NLF>>),
            A(1, <<M("ln["), M("ao["), M("pl[")>> \o Cat \o <<H, M("]c"), M("]pl"), TL("&&"), M("op:&&"), NLB>> \o Pa \o <<M("]ao"), M("]ln"), NLF>>),
            \* a here-document pending in front of an arithmetic command that spans lines: its newlines are not newline tokens,
            \* the body follows the line that ends the command
            A(1, Hd1 \o <<M("ao["), M("pl["), M("c["), T("(("), M("arith["), M("w["), TA("a -\n-b")>> \o MS(<<"lit:a", "lit:-", "lit:-b">>)
                   \o <<M("]w"), TA("))"), M("]arith"), M("]c"), M("]pl"), M("]ao"), M("]ln"), NLF>>),
            \* inside a command substitution, followed by one outside
            A(1, <<M("ln["), M("ao["), M("pl["), M("c["), M("simple["), T("a")>> \o WLit("a") \o <<M("w["), T("$("), M("cs$["), M("ln["), M("ao["), M("pl[")>> \o CatA
                   \o <<H, M("]c"), M("]pl"), M("]ao"), M("]ln"), NL, TC(")"), M("]cs"), M("]w"), M("]simple"), H, M("]c"), M("]pl"), M("]ao"), M("]ln"), NLF>>) >>
    \* ------------------------------------------------------------ printer focus (C05, C18)
    \* compound commands whose printing depends on separators and on the line structure: every combination
    \* of list terminators (; & newline) in conditions, bodies and case items, single-line and multi-line
    [] nt.n = "pl0" ->      \* a compound list in front of a closer, every alternative at cost 0
         LET Ao(e) == <<M("ao["), M("pl["), M("c["), M("simple["), T("a")>> \o WLit("a") \o <<M("]simple"), M("]c"), M("]pl")>>
                     \o (IF e = "" THEN <<>> ELSE <<(IF e = ";" THEN TS(";") ELSE TL("&")), M("sep:" \o e)>>) \o <<M("]ao")>>
         IN
         << [c |-> 0, r |-> <<M("ln[")>> \o Ao(";") \o <<M("]ln")>>],
            [c |-> 0, r |-> <<M("ln[")>> \o Ao("&") \o <<M("]ln")>>],
            [c |-> 0, r |-> <<M("ln[")>> \o Ao("") \o <<M("]ln"), NL>>],
            [c |-> 0, r |-> <<M("ln[")>> \o Ao(";") \o Ao(";") \o <<M("]ln")>>],
            [c |-> 0, r |-> <<M("ln[")>> \o Ao(";") \o <<M("]ln"), NL>>],
            [c |-> 0, r |-> <<M("ln[")>> \o Ao("") \o <<M("]ln"), NL, M("ln[")>> \o Ao("&") \o <<M("]ln"), NL>>] >>
    [] nt.n = "pl1" ->      \* pl0 and lists that begin with a subshell / a brace group
         LET Sep(e) == IF e = "" THEN <<>> ELSE <<(IF e = ";" THEN TS(";") ELSE TL("&")), M("sep:" \o e)>>
             Ao(e) == <<M("ao["), M("pl["), M("c["), M("simple["), T("a")>> \o WLit("a") \o <<M("]simple"), M("]c"), M("]pl")>> \o Sep(e) \o <<M("]ao")>>
             SubAo(e) == <<M("ao["), M("pl["), M("c["), TL("("), M("sub["), M("ln[")>> \o Ao("") \o <<M("]ln"), T(")"), M("]sub"), M("]c"), M("]pl")>> \o Sep(e) \o <<M("]ao")>>
             GrpAo(e) == <<M("ao["), M("pl["), M("c["), TL("{"), M("grp["), M("ln[")>> \o Ao(";") \o <<M("]ln"), T("}"), M("]grp"), M("]c"), M("]pl")>> \o Sep(e) \o <<M("]ao")>>
         IN
         Alts([nt EXCEPT !.n = "pl0"]) \o
         << [c |-> 0, r |-> <<M("ln[")>> \o SubAo(";") \o Ao(";") \o <<M("]ln")>>],
            [c |-> 0, r |-> <<M("ln[")>> \o SubAo("") \o <<M("]ln"), NL, M("ln[")>> \o Ao("") \o <<M("]ln"), NL, M("ln[")>> \o Ao("") \o <<M("]ln"), NL>>],
            [c |-> 0, r |-> <<M("ln[")>> \o GrpAo(";") \o <<M("]ln")>>],
            [c |-> 0, r |-> <<M("ln[")>> \o SubAo("") \o <<M("]ln"), NL>>] >>
    [] nt.n = "pb0" ->      \* the body of a case item in front of ;;
         LET Ao(e) == <<M("ao["), M("pl["), M("c["), M("simple["), T("a")>> \o WLit("a") \o <<M("]simple"), M("]c"), M("]pl")>>
                     \o (IF e = "" THEN <<>> ELSE <<(IF e = ";" THEN TS(";") ELSE TL("&")), M("sep:" \o e)>>) \o <<M("]ao")>>
         IN
         << [c |-> 0, r |-> <<>>],
            [c |-> 0, r |-> <<M("ln[")>> \o Ao("") \o <<M("]ln")>>],
            [c |-> 0, r |-> <<M("ln[")>> \o Ao(";") \o <<M("]ln")>>],
            [c |-> 0, r |-> <<M("ln[")>> \o Ao("&") \o <<M("]ln")>>],
            [c |-> 0, r |-> <<M("ln[")>> \o Ao(";") \o Ao("") \o <<M("]ln")>>] >>
    [] nt.n = "pi0" ->      \* one case item
         << [c |-> 0, r |-> <<M("item["), M("pats["), T("p*")>> \o WLit("p*") \o <<M("]pats"), TL(")"), NT("pb0", 2, FALSE, TRUE, FALSE, ""),
                              TL(";;"), M("op:;;"), M("]item")>>] >>
    [] nt.n = "prprog" ->
         LET L == NT("pl0", 2, FALSE, TRUE, FALSE, "")
             L1 == NT("pl1", 2, FALSE, TRUE, FALSE, "")
             I == NT("pi0", 2, FALSE, TRUE, FALSE, "")
             A0 == <<M("ao["), M("pl["), M("c["), M("simple["), T("a")>> \o WLit("a") \o <<M("]simple"), M("]c"), M("]pl"), M("]ao")>>
             SubC == <<M("ao["), M("pl["), M("c["), TL("("), M("sub["), M("ln[")>> \o A0 \o <<M("]ln"), T(")"), M("]sub"), M("]c"), M("]pl"), M("]ao")>>
             GrpC == <<M("ao["), M("pl["), M("c["), TL("{"), M("grp["), M("ln["), M("ao["), M("pl["), M("c["), M("simple["), T("a")>> \o WLit("a")
                     \o <<M("]simple"), M("]c"), M("]pl"), TS(";"), M("sep:;"), M("]ao"), M("]ln"), T("}"), M("]grp"), M("]c"), M("]pl"), M("]ao")>>
             Wrap(r) == <<M("ln["), M("ao["), M("pl["), M("c[")>> \o r \o <<M("]c"), M("]pl"), M("]ao"), M("]ln"), NLF>>
             If(e) == <<TL("if"), M("if["), M("cond["), L, M("]cond"), TL("then"), M("then["), L, M("]then")>> \o e \o <<T("fi"), M("]if")>>
         IN
         << A(0, Wrap(<<T("case"), M("case[")>> \o <<T("a")>> \o WLit("a") \o <<TL("in"), I, I, T("esac"), M("]case")>>)),
            A(1, Wrap(<<T("case"), M("case[")>> \o <<T("a")>> \o WLit("a") \o <<TL("in"), I, I, I, T("esac"), M("]case")>>)),
            A(1, Wrap(<<T("case"), M("case[")>> \o <<T("a")>> \o WLit("a") \o <<TL("in"), NLB, I, NLB, I, NLB, T("esac"), M("]case")>>)),
            A(1, Wrap(If(<<>>))),
            A(1, Wrap(<<TL("if"), M("if["), M("cond["), L1, M("]cond"), TL("then"), M("then["), L, M("]then"), T("fi"), M("]if")>>)),
            A(1, Wrap(If(<<TL("else"), M("else["), L, M("]else")>>))),
            A(1, Wrap(If(<<TL("elif"), M("elif["), M("cond["), L, M("]cond"), TL("then"), M("then["), L, M("]then"), M("]elif")>>))),
            A(1, Wrap(<<TL("while"), M("while["), M("cond["), L1, M("]cond"), TL("do"), M("do["), L, M("]do"), T("done"), M("]while")>>)),
            A(1, Wrap(<<TL("until"), M("until["), M("cond["), L, M("]cond"), TL("do"), M("do["), L, M("]do"), T("done"), M("]until")>>)),
            A(1, Wrap(<<T("for"), M("for["), T("x"), M("name:x"), T("in"), M("in["), T("a")>> \o WLit("a") \o <<M("]in"), TS(";"), M("forsemi"),
                        TL("do"), M("do["), L, M("]do"), T("done"), M("]for")>>)),
            A(1, Wrap(<<T("for"), M("for["), T("x"), M("name:x"), NLB, TL("do"), M("do["), L, M("]do"), T("done"), M("]for")>>)),
            A(1, Wrap(<<TL("{"), M("grp["), L1, T("}"), M("]grp")>>)),
            \* a compound command directly in front of the closer of the enclosing one: no separator is needed
            A(1, Wrap(<<TL("{"), M("grp["), M("ln[")>> \o SubC \o <<M("]ln"), T("}"), M("]grp")>>)),
            A(1, Wrap(<<TL("if"), M("if["), M("cond["), L, M("]cond"), TL("then"), M("then["), M("ln[")>> \o SubC \o <<M("]ln"), M("]then"), T("fi"), M("]if")>>)),
            A(1, Wrap(<<TL("while"), M("while["), M("cond["), L, M("]cond"), TL("do"), M("do["), M("ln[")>> \o GrpC \o <<M("]ln"), M("]do"), T("done"), M("]while")>>)),
            A(1, Wrap(<<T("case"), M("case["), T("a")>> \o WLit("a") \o <<TL("in"), M("item["), M("pats["), T("p*")>> \o WLit("p*") \o <<M("]pats"), TL(")"), M("ln[")>> \o SubC
                      \o <<M("]ln"), M("]item"), T("esac"), M("]case")>>)),
            A(1, Wrap(<<TL("("), M("sub["), M("ln[")>> \o GrpC \o <<M("]ln"), T(")"), M("]sub")>>)),
            \* ( esac | a ): a first pattern that spells esac, followed by another pattern
            A(1, Wrap(<<T("case"), M("case["), T("a")>> \o WLit("a") \o <<TL("in"), M("item["), T("("), M("op:("), M("pats["), T("esac")>> \o WLit("esac") \o <<T("|"), T("a")>> \o WLit("a")
                      \o <<M("]pats"), TL(")"), NT("pb0", 2, FALSE, TRUE, FALSE, ""), TL(";;"), M("op:;;"), M("]item"), T("esac"), M("]case")>>)),
            A(1, Wrap(<<TL("("), M("sub["), L1, T(")"), M("]sub")>>)) >>
    [] nt.n = "list" ->   \* and-or lists joined by ; or &; the last one carries nt.end
         << A(0, <<SameE(nt, "ao", nt.end)>>),
            A(1, <<SameE(nt, "ao", ";"), SameE(nt, "list", nt.end)>>),
            A(1, <<SameE(nt, "ao", "&"), SameE(nt, "list", nt.end)>>) >>
         \o (IF nt.top THEN <<>> ELSE << A(1, <<SameE(nt, "ao", ";"), NL, SameE(nt, "list", nt.end)>>) >>)
    [] nt.n = "ao" ->
         << A(0, <<M("ao["), Same(nt, "andor")>> \o TopSep(nt, nt.end) \o <<M("]ao")>>) >>
    [] nt.n = "andor" ->
         << A(0, <<Same(nt, "pipeline")>>),
            A(1, <<Same(nt, "pipeline"), TL("&&"), M("op:&&"), Same(nt, "andor")>>),
            A(1, <<Same(nt, "pipeline"), TL("||"), M("op:||"), Same(nt, "andor")>>) >>
    [] nt.n = "pipeline" ->
         << A(0, <<M("pl["), Same(nt, "pipeseq"), M("]pl")>>),
            A(1, <<M("pl["), T("!"), M("op:!"), Same(nt, "pipeseq"), M("]pl")>>) >>
    [] nt.n = "pipeseq" ->
         << A(0, <<Same(nt, "cmd")>>),
            A(1, <<Same(nt, "cmd"), TL("|"), M("op:|"), Same(nt, "pipeseq")>>) >>
    [] nt.n = "cmd" ->
         << A(0, <<M("c["), Same(nt, "simple"), M("]c")>>) >>
         \o [i \in 1..7 |-> A(1, <<M("c["), Sub(nt, <<"sub", "grp", "for", "case", "if", "while", "until">>[i]),
                                   Same(nt, "redirs0"), M("]c")>>)]
         \o << A(1, <<M("c["), Sub(nt, "fn"), M("]c")>>) >>
         \* "((" is recognised by go.sh only outside parentheses (known finding arith-in-paren)
         \o (IF nt.par THEN <<>> ELSE << A(1, <<M("c["), Sub(nt, "arith"), Same(nt, "redirs0"), M("]c")>>) >>)
    [] nt.n = "simple" ->
         << A(0, <<M("simple["), Same(nt, "cword"), M("]simple")>>),
            A(1, <<M("simple["), Same(nt, "cword"), Same(nt, "args"), M("]simple")>>),
            \* a word of non-ASCII digits that touches a redirection operator is a word, not an IO_NUMBER
            \* (Ux663 is spelled U+0663 ARABIC-INDIC DIGIT THREE in the source text: lib/shellgen.py)
            A(1, <<M("simple["), Same(nt, "cword"), T("Ux663")>> \o WLit("Ux663") \o <<M("]simple"), M("r["), TA(">"), M("rop:>"), T("o")>> \o WLit("o") \o <<M("]r")>>),
            A(1, <<M("simple["), Same(nt, "cword"), M("]simple"), Same(nt, "redir"), Same(nt, "redirs0")>>),
            A(1, <<M("simple["), Same(nt, "cword"), Same(nt, "args"), M("]simple"), Same(nt, "redir"), Same(nt, "redirs0")>>),
            A(1, <<M("simple["), Same(nt, "assign"), Same(nt, "assigns0"), Same(nt, "cword"), M("]simple")>>),
            A(1, <<M("simple["), Same(nt, "assign"), Same(nt, "assigns0"), M("]simple"), Same(nt, "redirs0")>>),
            A(1, <<M("simple["), M("]simple"), Same(nt, "redir"), Same(nt, "redirs0")>>),
            \* redirections in prefix position (fixed words), before / between assignments and the command word
            A(1, <<T(">"), T("o1"), M("simple["), Same(nt, "cword"), M("]simple"), M("r["), M("rop:>")>> \o WLit("o1") \o <<M("]r")>>),
            \* behind a prefix the spelling of a reserved word is an ordinary command word
            A(1, <<T(">"), T("o1"), M("simple["), T("if")>> \o WLit("if") \o <<T("a")>> \o WLit("a") \o <<M("]simple"), M("r["), M("rop:>")>> \o WLit("o1") \o <<M("]r")>>),
            A(1, <<T("<"), T("i1"), M("simple["), T("!")>> \o WLit("!") \o <<T("{")>> \o WLit("{") \o <<M("]simple"), M("r["), M("rop:<")>> \o WLit("i1") \o <<M("]r")>>),
            A(1, <<M("simple["), Same(nt, "assign"), T("for")>> \o WLit("for") \o <<T("x")>> \o WLit("x") \o <<M("]simple")>>),
            A(1, <<M("simple["), Same(nt, "assign"), T(">"), T("o1"), T("if")>> \o WLit("if") \o <<T("x")>> \o WLit("x") \o <<M("]simple"), M("r["), M("rop:>")>> \o WLit("o1") \o <<M("]r")>>),
            A(1, <<T("2"), TA(">&"), TA("1"), M("simple["), Same(nt, "assign"), Same(nt, "cword"), Same(nt, "args"), M("]simple"),
                   M("r["), M("n:2"), M("rop:>&")>> \o WLit("1") \o <<M("]r")>>),
            A(1, <<M("simple["), Same(nt, "assign"), T("<"), T("i1"), Same(nt, "cword"), T(">>"), TA("o2"), Same(nt, "args"), M("]simple"),
                   M("r["), M("rop:<")>> \o WLit("i1") \o <<M("]r"), M("r["), M("rop:>>")>> \o WLit("o2") \o <<M("]r")>>) >>
    [] nt.n = "assigns0" -> << A(0, <<>>), A(1, <<Same(nt, "assign"), Same(nt, "assigns0")>>) >>
    [] nt.n = "assign" ->
         << A(0, <<M("as["), T("x="), M("name:x"), M("asop:="), TA("1")>> \o WLit("1") \o <<M("]as")>>),
            A(1, <<M("as["), T("y_2="), M("name:y_2"), M("asop:="), M("w["), M("]w"), M("]as")>>),
            \* a name with a letter outside ASCII (UxE9 is spelled U+00E9 in the source text), a short value
            A(1, <<M("as["), T("UxE9="), M("name:UxE9"), M("asop:="), TA("x")>> \o WLit("x") \o <<M("]as")>>),
            A(1, <<M("as["), T("x="), M("name:x"), M("asop:="), P(nt, NT("word", nt.d, nt.top, nt.nh, TRUE, "")), M("]as")>>) >>
    [] nt.n = "cword" ->   \* a word in command position: not a reserved word, not an assignment, no alias
         << A(0, <<T("a")>> \o WLit("a")),
            A(1, <<T("cmd1")>> \o WLit("cmd1")),
            A(1, <<T("'if'"), M("w["), M("sq["), M("lit:if"), M("]sq"), M("]w")>>),
            A(1, <<T("\\{"), M("w["), M("bs:{"), M("]w")>>),
            A(1, <<T("\"x y\"z"), M("w["), M("dq["), M("lit:x y"), M("]dq"), M("lit:z"), M("]w")>>),
            A(1, <<T("$v"), M("w["), M("pe["), M("name:v"), M("]pe"), M("]w")>>),
            A(1, <<T("=x")>> \o WLit("=x")),
            A(1, <<T("1=2")>> \o WLit("1=2")) >>
    [] nt.n = "args" -> << A(0, <<Word(nt)>>), A(1, <<Word(nt), Same(nt, "args")>>) >>
    [] nt.n = "word" ->
         LET g == IF nt.adj THEN "adj" ELSE "sp" IN
         << A(0, <<M("w["), P(nt, NT("part", nt.d, nt.top, nt.nh, nt.adj, "")), M("]w")>>),
            A(1, <<M("w["), P(nt, NT("part", nt.d, nt.top, nt.nh, nt.adj, "")), P(nt, NT("part2", nt.d, nt.top, nt.nh, TRUE, "")), M("]w")>>),
            A(1, <<M("w["), TG("'q'", g), M("sq["), M("lit:q"), M("]sq"), TA("b"), M("lit:b"), M("]w")>>) >>
         \o [i \in 1..Len(ReservedSpellings) |-> A(1, <<TG(ReservedSpellings[i], g)>> \o WLit(ReservedSpellings[i]))]
    [] nt.n = "part"  -> PartAlts(nt, IF nt.adj THEN "adj" ELSE "sp", FALSE)
    [] nt.n = "part2" -> PartAlts(nt, "adj", TRUE)     \* second part of a word: not a literal
    [] nt.n = "peword" ->   \* the word of ${v<op>word}; may be empty
         << A(0, <<M("w["), M("]w")>>),
            A(1, <<M("w["), TA("w"), M("lit:w"), M("]w")>>),
            A(1, <<M("w["), TA("a b"), M("lit:a b"), M("]w")>>),
            A(1, <<M("w["), TA("'}'"), M("sq["), M("lit:}"), M("]sq"), M("]w")>>),
            A(1, <<M("w["), TA("\"$v\""), M("dq["), M("pe["), M("name:v"), M("]pe"), M("]dq"), M("]w")>>),
            A(1, <<M("w["), TA("${v:-${w}}"), M("pe["), M("braces"), M("name:v"), M("peop::-"), M("w["), M("pe["), M("braces"), M("name:w"), M("]pe"), M("]w"), M("]pe"), M("]w")>>),
            A(1, <<M("w["), TA("*/"), M("lit:*/"), M("]w")>>),
            \* command substitutions inside the word
            A(1, <<M("w["), TA("x$(a)"), M("lit:x"), M("cs$["), M("ln["), M("ao["), M("pl["), M("c["), M("simple["), M("w["), M("lit:a"), M("]w"), M("]simple"), M("]c"), M("]pl"), M("]ao"), M("]ln"), M("]cs"), M("]w")>>),
            \* literal text in front of an expansion / a quotation inside the word
            A(1, <<M("w["), TA("b$c"), M("lit:b"), M("pe["), M("name:c"), M("]pe"), M("]w")>>),
            A(1, <<M("w["), TA("/t/${U}\"q\"r"), M("lit:/t/"), M("pe["), M("braces"), M("name:U"), M("]pe"), M("dq["), M("lit:q"), M("]dq"), M("lit:r"), M("]w")>>) >>
         \o (IF nt.bq THEN <<>> ELSE << A(1, <<M("w["), TA("`a`"), M("cs`["), M("ln["), M("ao["), M("pl["), M("c["), M("simple["), M("w["), M("lit:a"), M("]w"), M("]simple"), M("]c"), M("]pl"), M("]ao"), M("]ln"), M("]cs"), M("]w")>>) >>)
    [] nt.n = "cslist" ->   \* body of a command substitution: touches both delimiters, no here-document
         << A(0, <<M("ln["), P(nt, NT("list", nt.d, FALSE, TRUE, TRUE, "")), M("]ln")>>) >>
    [] nt.n = "cshd" ->     \* a command substitution that holds a here-document (and its newlines)
         << A(0, <<M("ln["), M("ao["), M("pl["), M("c["), M("simple["), TA("cat")>> \o WLit("cat") \o <<M("]simple"),
                   P(nt, NT("heredoc", nt.d, FALSE, FALSE, FALSE, "")), M("]c"), M("]pl"), M("]ao"), M("]ln"), NL>>) >>
    [] nt.n = "heredoc" -> [i \in 1..Len(HereDocs) |-> HereAlt(HereDocs[i], "")]
    [] nt.n = "redirs0" -> << A(0, <<>>), A(1, <<Same(nt, "redir"), Same(nt, "redirs0")>>) >>
    [] nt.n = "redir" ->
         << A(0, <<M("r["), T(">"), M("rop:>"), Word(nt), M("]r")>>) >>
         \o [i \in 1..(Len(RedirOps) - 1) |-> A(1, <<M("r["), T(RedirOps[i + 1]), M("rop:" \o RedirOps[i + 1]), Word(nt), M("]r")>>)]
         \o << A(1, <<M("r["), T("2"), M("n:2"), TA(">"), M("rop:>"), P(nt, NT("word", nt.d, nt.top, nt.nh, TRUE, "")), M("]r")>>),
               A(1, <<M("r["), T("10"), M("n:10"), TA("<&"), M("rop:<&"), TA("-")>> \o WLit("-") \o <<M("]r")>>) >>
         \o (IF nt.nh THEN <<>> ELSE [i \in 1..Len(HereDocs) |-> HereAlt(HereDocs[i], "")] \o << HereAlt(HereDocs[1], "3") >>)
    \* ------------------------------------------------------------- compound commands
    [] nt.n = "tlist" ->   \* a compound list in front of a closing reserved word
         << A(0, <<M("ln["), SameE(nt, "list", ";"), M("]ln")>>),
            A(1, <<M("ln["), SameE(nt, "list", ""),  M("]ln"), NL>>),
            A(1, <<M("ln["), SameE(nt, "list", "&"), M("]ln")>>),
            A(1, <<M("ln["), SameE(nt, "list", ""),  M("]ln"), NL, Same(nt, "tlist")>>),
            A(1, <<NL, M("ln["), SameE(nt, "list", ""),  M("]ln"), NL>>) >>
    [] nt.n = "slist" ->   \* the compound list of a subshell: needs no terminator
         << A(0, <<M("ln["), SameE(nt, "list", ""), M("]ln")>>),
            A(1, <<Same(nt, "tlist")>>) >>
    [] nt.n = "sub"   -> << A(0, <<TL("("), M("sub["), InPar(Same(nt, "slist")), T(")"), M("]sub")>>) >>
    [] nt.n = "grp"   -> << A(0, <<TL("{"), M("grp["), Same(nt, "tlist"), T("}"), M("]grp")>>) >>
    [] nt.n = "arith" ->
         [i \in 1..Len(ArithPool) |-> A(ArithPool[i].c, <<T("(("), M("arith["), M("w["), TA(ArithPool[i].t)>> \o MS(ArithPool[i].m)
                                                          \o <<M("]w"), TA("))"), M("]arith")>>)]
    [] nt.n = "if"    ->
         << A(0, <<TL("if"), M("if["), M("cond["), Same(nt, "tlist"), M("]cond"), TL("then"), M("then["), Same(nt, "tlist"), M("]then"),
                   Same(nt, "elses"), T("fi"), M("]if")>>) >>
    [] nt.n = "elses" ->
         << A(0, <<>>),
            A(1, <<TL("else"), M("else["), Same(nt, "tlist"), M("]else")>>),
            A(1, <<TL("elif"), M("elif["), M("cond["), Same(nt, "tlist"), M("]cond"), TL("then"), M("then["), Same(nt, "tlist"), M("]then"),
                   M("]elif"), Same(nt, "elses")>>) >>
    [] nt.n = "while" -> << A(0, <<TL("while"), M("while["), M("cond["), Same(nt, "tlist"), M("]cond"), TL("do"), M("do["), Same(nt, "tlist"),
                                   M("]do"), T("done"), M("]while")>>) >>
    [] nt.n = "until" -> << A(0, <<TL("until"), M("until["), M("cond["), Same(nt, "tlist"), M("]cond"), TL("do"), M("do["), Same(nt, "tlist"),
                                   M("]do"), T("done"), M("]until")>>) >>
    [] nt.n = "for"   ->
         LET body == <<TL("do"), M("do["), Same(nt, "tlist"), M("]do"), T("done"), M("]for")>> IN
         << A(0, <<T("for"), M("for["), T("x"), M("name:x")>> \o body),
            A(1, <<T("for"), M("for["), T("x"), M("name:x"), TS(";"), M("forsemi")>> \o body),
            A(1, <<T("for"), M("for["), T("x"), M("name:x"), NLB>> \o body),
            A(1, <<T("for"), M("for["), T("i_1"), M("name:i_1"), T("in"), M("in["), Same(nt, "args"), M("]in"), TS(";"), M("forsemi")>> \o body),
            A(1, <<T("for"), M("for["), T("x"), M("name:x"), T("in"), M("in["), M("]in"), TS(";"), M("forsemi")>> \o body),
            A(1, <<T("for"), M("for["), T("x"), M("name:x"), T("in"), M("in["), Same(nt, "args"), M("]in"), NLB>> \o body),
            A(1, <<T("for"), M("for["), T("x"), M("name:x"), NLB, T("in"), M("in["), Same(nt, "args"), M("]in"), NLB>> \o body) >>
    [] nt.n = "case"  ->
         << A(0, <<T("case"), M("case["), Word(nt), TL("in"), Same(nt, "items"), T("esac"), M("]case")>>),
            A(1, <<T("case"), M("case["), Word(nt), NLB, TL("in"), Same(nt, "items"), T("esac"), M("]case")>>) >>
    [] nt.n = "items" ->
         << A(0, <<>>),
            A(1, <<Same(nt, "item"), Same(nt, "items")>>),
            A(1, <<Same(nt, "itemns")>>) >>
    [] nt.n = "item"  ->
         << A(0, <<M("item["), M("pats["), Same(nt, "pats"), M("]pats"), TL(")"), Same(nt, "cbody"), TL(";;"), M("op:;;"), M("]item")>>),
            A(1, <<M("item["), T("("), M("op:("), M("pats["), Same(nt, "pats"), M("]pats"), TL(")"), Same(nt, "cbody"), TL(";;"), M("op:;;"), M("]item")>>),
            \* after "(" the first pattern may spell esac
            A(1, <<M("item["), T("("), M("op:("), M("pats["), T("esac")>> \o WLit("esac") \o <<M("]pats"), TL(")"), Same(nt, "cbody"), TL(";;"), M("op:;;"), M("]item")>>) >>
    [] nt.n = "itemns" ->  \* last item without ;;
         << A(0, <<M("item["), M("pats["), Same(nt, "pats"), M("]pats"), TL(")"), Same(nt, "tlist"), M("]item")>>),
            A(1, <<M("item["), M("pats["), Same(nt, "pats"), M("]pats"), TL(")"), M("]item")>>) >>
    [] nt.n = "pats"  -> << A(0, <<Same(nt, "pword")>>), A(1, <<Same(nt, "pword"), T("|"), Same(nt, "pats")>>) >>
    [] nt.n = "pword" ->   \* a pattern; the first one must not spell esac
         LET rs == SelectSeq(ReservedSpellings, LAMBDA x : x # "esac") IN
         << A(0, <<T("p*")>> \o WLit("p*")),
            A(1, <<M("w["), P(nt, NT("part", nt.d, nt.top, nt.nh, FALSE, "")), M("]w")>>),
            A(1, <<M("w["), P(nt, NT("part", nt.d, nt.top, nt.nh, FALSE, "")), P(nt, NT("part2", nt.d, nt.top, nt.nh, TRUE, "")), M("]w")>>) >>
         \o [i \in 1..Len(rs) |-> A(1, <<T(rs[i])>> \o WLit(rs[i]))]
    [] nt.n = "cbody" ->
         << A(0, <<M("ln["), SameE(nt, "list", ""), M("]ln")>>),
            A(1, <<>>),
            A(1, <<Same(nt, "tlist")>>) >>
    [] nt.n = "fn"    ->
         << A(0, <<M("fn["), T("f"), M("name:f"), T("("), T(")"), M("c["), Sub(nt, "grp"), Same(nt, "redirs0"), M("]c"), M("]fn")>>) >>
         \o [i \in 1..6 |-> A(1, <<M("fn["), T("g_1"), M("name:g_1"), TA("("), TA(")"), M("c["),
                                   Sub(nt, <<"sub", "for", "case", "if", "while", "until">>[i]), Same(nt, "redirs0"), M("]c"), M("]fn")>>)]
         \o (IF nt.par THEN <<>> ELSE << A(1, <<M("fn["), T("g_1"), M("name:g_1"), TA("("), TA(")"), M("c["),
                                   Sub(nt, "arith"), Same(nt, "redirs0"), M("]c"), M("]fn")>>) >>)
         \o << A(1, <<M("fn["), T("f"), M("name:f"), T("("), TL(")"), NLB, M("c["), Sub(nt, "grp"), Same(nt, "redirs0"), M("]c"), M("]fn")>>) >>
=============================================================================
